package main

import (
	"fmt"
	"go/types"
	"sort"
	"strings"

	"golang.org/x/tools/go/ssa"
)

// ConfineConfig: a structural rule for taint-style containment properties. Inside the listed packages
// every static call to a path-taking function (first parameter of type string) of the listed callee
// packages must sit in a function whose contract carries a call-site condition (callpre) for that
// callee; functions listed as exempt are reported as assumptions. A call through a function value or
// an interface to those packages cannot be seen here (there is none today; a new one is not detected).
type ConfineConfig struct {
	Packages      []string `json:"packages"`    // directories relative to the module root
	Callees       []string `json:"callee_pkgs"` // e.g. "os", "io/ioutil"
	ExemptFns     []string `json:"exempt_functions"`
	ExemptCallees []string `json:"exempt_callees"`
}

func (L *Loader) confineSweep(c *ConfineConfig) (obls []*Obligation, notes []string) {
	inPkg := func(p *ssa.Package) bool {
		if p == nil {
			return false
		}
		for _, d := range c.Packages {
			if p.Pkg.Path() == modulePath+"/"+strings.TrimPrefix(d, "./") {
				return true
			}
		}
		return false
	}
	calleePkg := map[string]bool{}
	for _, p := range c.Callees {
		calleePkg[p] = true
	}
	exFn := map[string]bool{}
	for _, f := range c.ExemptFns {
		exFn[f] = true
	}
	exCallee := map[string]bool{}
	for _, f := range c.ExemptCallees {
		exCallee[f] = true
	}
	type site struct {
		pos, fn, callee string
		ok              bool
		why             string
	}
	var sites []site
	for fn := range L.allFuncs {
		if !inPkg(pkgOf(fn)) || strings.HasSuffix(L.fset.Position(fn.Pos()).Filename, "_test.go") {
			continue
		}
		short := L.funcKeyShort(fn)
		for _, b := range fn.Blocks {
			for _, in := range b.Instrs {
				ci, ok := in.(ssa.CallInstruction)
				if !ok {
					continue
				}
				callee := ci.Common().StaticCallee()
				if callee == nil || callee.Pkg == nil || !calleePkg[callee.Pkg.Pkg.Path()] || callee.Signature.Recv() != nil {
					continue
				}
				ps := callee.Signature.Params()
				if ps.Len() == 0 {
					continue
				}
				if bt, isB := ps.At(0).Type().Underlying().(*types.Basic); !isB || bt.Kind() != types.String {
					continue
				}
				cname := callee.Pkg.Pkg.Name() + "." + callee.Name()
				if exCallee[cname] {
					continue
				}
				pos := L.fset.Position(in.Pos())
				pstr := fmt.Sprintf("%s:%d", strings.TrimPrefix(pos.Filename, L.repoDir+"/"), pos.Line)
				if exFn[short] {
					notes = append(notes, fmt.Sprintf("%s calls %s at %s (exempt: not driven by client input)", short, cname, pstr))
					continue
				}
				sp := L.specFor(fn)
				s := site{pos: pstr, fn: short, callee: cname}
				switch {
				case sp == nil:
					s.why = "the enclosing function has no contract"
				case sp.Trusted:
					s.why = "the enclosing function's contract is trusted, not verified"
				case len(sp.CallPre[cname]) == 0:
					s.why = "the enclosing function's contract has no call-site condition (callpre) for " + cname
				default:
					s.ok = true
				}
				sites = append(sites, s)
			}
		}
	}
	sort.Slice(sites, func(i, j int) bool { return sites[i].pos < sites[j].pos })
	n := map[string]int{}
	for _, s := range sites {
		goal, desc := "true", "call of "+s.callee+" is covered by a containment condition in the contract of "+s.fn
		if !s.ok {
			goal, desc = "false", "path-taking call "+s.callee+" without a containment condition: "+s.why
		}
		base := fmt.Sprintf("%s/confine/%s", s.fn, s.callee)
		n[base]++
		obls = append(obls, &Obligation{ID: fmt.Sprintf("%s#%d", base, n[base]), Kind: "confine", Func: s.fn, Pos: s.pos, Desc: desc,
			Prefix: 1, Goal: goal, Script: []string{"(set-logic ALL)"}})
	}
	return
}
