package main

import (
	"fmt"
	"go/token"
	"go/types"
	"regexp"
	"sort"
	"strings"

	"golang.org/x/tools/go/ssa"
)

// GoSweepConfig: structural rules for "no client traffic can end the process" (C01), decided on go/ssa.
//   - every goroutine started in the listed packages either registers a recover as its first action
//     (recover-frame rule), or is a function whose no-panic contract is verified by this same check,
//     or is listed as reviewed (reported as an assumption), or is one of the listed third-party functions;
//   - every directly recursive function of the listed packages carries a `decreases` clause that this
//     check verifies.
type GoSweepConfig struct {
	Packages   []string          `json:"packages"`
	ThirdParty []string          `json:"third_party_ok"` // full function keys started with go that are trusted
	Reviewed   map[string]string `json:"reviewed"`       // short function key -> why it cannot panic
	Exclude    []string          `json:"exclude"`        // regexps on short keys of enclosing functions outside the property
}

// recoverFrameOK: the first thing fn does is to register a deferred closure whose first call is recover().
func recoverFrameOK(fn *ssa.Function) (bool, string) {
	if fn == nil || len(fn.Blocks) == 0 {
		return false, "no body"
	}
	earlier := 0
	for _, in := range fn.Blocks[0].Instrs {
		switch x := in.(type) {
		case *ssa.Alloc, *ssa.MakeClosure, *ssa.DebugRef:
		case *ssa.Store:
			if _, isAlloc := x.Addr.(*ssa.Alloc); !isAlloc {
				return false, "an instruction that may panic precedes the registration of the recover closure"
			}
		case *ssa.FieldAddr:
			if _, isParam := x.X.(*ssa.Parameter); !isParam {
				return false, "an instruction that may panic precedes the registration of the recover closure"
			}
		case *ssa.UnOp:
			switch x.X.(type) {
			case *ssa.FreeVar, *ssa.Alloc, *ssa.FieldAddr:
			default:
				return false, "an instruction that may panic precedes the registration of the recover closure"
			}
		case *ssa.Defer:
			var R *ssa.Function
			if mc, isClo := x.Call.Value.(*ssa.MakeClosure); isClo {
				R = mc.Fn.(*ssa.Function)
			} else if f, isFn := x.Call.Value.(*ssa.Function); isFn {
				R = f
			}
			if R != nil && callsRecoverFirst(R) {
				if earlier > 0 {
					return true, fmt.Sprintf("%d deferred call(s) registered before the recover run after it, outside its protection", earlier)
				}
				return true, ""
			}
			// a deferred call registered before the recover closure: it runs AFTER the recovery
			earlier++
		default:
			return false, "an instruction that may panic precedes the registration of the recover closure"
		}
	}
	return false, "no deferred recover closure is registered in the entry block"
}

// loopBlocks: the blocks of fn that lie on a cycle of its control-flow graph.
func loopBlocks(fn *ssa.Function) map[*ssa.BasicBlock]bool {
	in := map[*ssa.BasicBlock]bool{}
	for _, b := range fn.Blocks {
		seen := map[*ssa.BasicBlock]bool{}
		stack := append([]*ssa.BasicBlock{}, b.Succs...)
		for len(stack) > 0 {
			x := stack[len(stack)-1]
			stack = stack[:len(stack)-1]
			if seen[x] {
				continue
			}
			seen[x] = true
			if x == b {
				in[b] = true
				break
			}
			stack = append(stack, x.Succs...)
		}
	}
	return in
}

func (L *Loader) goSweep(c0 *GoSweepConfig, verified map[string]bool) (obls []*Obligation, notes []string) {
	c := c0
	inPkg := func(p *ssa.Package) bool {
		if p == nil {
			return false
		}
		for _, d := range c.Packages {
			d = strings.TrimPrefix(d, "./")
			pp := modulePath + "/" + d
			if p.Pkg.Path() == pp || (strings.HasSuffix(d, "/...") && strings.HasPrefix(p.Pkg.Path(), strings.TrimSuffix(pp, "/..."))) {
				return true
			}
		}
		return false
	}
	third := map[string]bool{}
	for _, t := range c.ThirdParty {
		third[t] = true
	}
	type site struct {
		id, pos, fn, desc string
		ok                bool
	}
	var sites []site
	var fns []*ssa.Function
	for fn := range L.allFuncs {
		fns = append(fns, fn)
	}
	sort.Slice(fns, func(i, j int) bool { return L.funcKey(fns[i]) < L.funcKey(fns[j]) })
	nGo := map[string]int{}
	written := map[string]bool{} // shared maps written while connections are served
	type mapRead struct {
		s     site
		ident string
	}
	var reads []mapRead
	for _, fn := range fns {
		p := pkgOf(fn)
		if !inPkg(p) || strings.HasSuffix(L.fset.Position(fn.Pos()).Filename, "_test.go") {
			continue
		}
		short := L.funcKeyShort(fn)
		skip := false
		for _, ex := range c.Exclude {
			if m, _ := regexp.MatchString("^(?:"+ex+")$", short); m {
				skip = true
			}
		}
		if skip {
			continue
		}
		selfRec := false
		for _, b := range fn.Blocks {
			for _, in := range b.Instrs {
				if call, ok := in.(ssa.CallInstruction); ok {
					if call.Common().StaticCallee() == fn {
						if _, isGo := in.(*ssa.Go); !isGo {
							selfRec = true
						}
					}
				}
				var gcall *ssa.CallCommon
				var target *ssa.Function
				if g, ok := in.(*ssa.Go); ok {
					gcall = &g.Call
					if mc, isClo := g.Call.Value.(*ssa.MakeClosure); isClo {
						target = mc.Fn.(*ssa.Function)
					} else {
						target = g.Call.StaticCallee()
					}
				} else if c, ok := in.(*ssa.Call); ok {
					// time.AfterFunc(d, f) runs f in a goroutine of its own, like a go statement
					if callee := c.Call.StaticCallee(); callee != nil && callee.Pkg != nil && callee.Pkg.Pkg.Path() == "time" && callee.Name() == "AfterFunc" && len(c.Call.Args) == 2 {
						gcall = &c.Call
						switch f := c.Call.Args[1].(type) {
						case *ssa.MakeClosure:
							target = f.Fn.(*ssa.Function)
						case *ssa.Function:
							target = f
						}
					}
				}
				if gcall == nil {
					continue
				}
				pos := L.fset.Position(in.Pos())
				pstr := fmt.Sprintf("%s:%d", strings.TrimPrefix(pos.Filename, L.repoDir+"/"), pos.Line)
				nGo[short]++
				s := site{pos: pstr, fn: short}
				switch {
				case target == nil:
					s.id = fmt.Sprintf("%s/go/dynamic#%d", short, nGo[short])
					why, rev := c.Reviewed[s.id]
					s.ok = rev
					s.desc = "goroutine started through a function value: its body is not known here"
					if rev {
						notes = append(notes, s.id+" at "+pstr+" (reviewed: "+why+")")
					}
				default:
					tshort := L.funcKeyShort(target)
					s.id = fmt.Sprintf("%s/go/%s#%d", short, tshort, nGo[short])
					if ok, note := recoverFrameOK(target); ok {
						s.ok, s.desc = true, "goroutine "+tshort+" registers a recover before anything that can panic"
						if note != "" {
							s.desc += " (" + note + ")"
							notes = append(notes, tshort+": "+note)
						}
					} else if verified[L.funcKey(target)] {
						s.ok, s.desc = true, "goroutine "+tshort+" is under a no-panic contract verified by this check"
					} else if third[L.funcKey(target)] {
						s.ok, s.desc = true, "goroutine "+tshort+" is third-party code (trusted)"
						notes = append(notes, tshort+" at "+pstr+" (third party, trusted not to panic)")
					} else if why, rev := c.Reviewed[tshort]; rev {
						s.ok, s.desc = true, "goroutine "+tshort+" reviewed: "+why
						notes = append(notes, tshort+" at "+pstr+" (reviewed: "+why+")")
					} else {
						_, why := recoverFrameOK(target)
						s.desc = "goroutine " + tshort + " runs outside any recover and is not under a no-panic contract (" + why + "): a panic in it ends the process"
					}
				}
				sites = append(sites, s)
			}
		}
		// shared-map rule: a map reached from the receiver, a captured variable or a package variable is
		// shared between the goroutines that serve the connections; the runtime ends the process when it
		// detects unsynchronised access to it. Every update or delete of such a map has to be dominated, in
		// the same function, by a Lock on a mutex reached from the same root.
		nMap := 0
		for _, b := range fn.Blocks {
			for _, in := range b.Instrs {
				var m ssa.Value
				switch x := in.(type) {
				case *ssa.MapUpdate:
					m = x.Map
				case *ssa.Call:
					if bi, ok := x.Call.Value.(*ssa.Builtin); ok && bi.Name() == "delete" && len(x.Call.Args) > 0 {
						m = x.Call.Args[0]
					}
				}
				if m == nil {
					continue
				}
				root, shared := sharedRoot(m)
				if !shared {
					continue
				}
				nMap++
				pos := L.fset.Position(in.Pos())
				pstr := fmt.Sprintf("%s:%d", strings.TrimPrefix(pos.Filename, L.repoDir+"/"), pos.Line)
				s := site{id: fmt.Sprintf("%s/shared-map/write#%d", short, nMap), pos: pstr, fn: short}
				if _, rev := c.Reviewed[s.id]; !rev {
					written[mapIdentity(m)] = true
				}
				if lockDominates(fn, b, in, root, false) {
					s.ok, s.desc = true, "write to a shared map under a mutex of the same owner locked earlier in this function"
				} else if why, rev := c.Reviewed[s.id]; rev {
					s.ok, s.desc = true, "write to a shared map reviewed: "+why
					notes = append(notes, s.id+" at "+pstr+" (reviewed: "+why+")")
				} else {
					s.desc = "a map shared by the goroutines serving the connections is written without a lock held: the runtime ends the process on concurrent map access"
				}
				sites = append(sites, s)
			}
		}
		// read-error rule: inside a loop, a read from a connection or reader whose error result is thrown away
		// lets the loop go round for ever once the peer is gone (each read then returns at once)
		inLoop := loopBlocks(fn)
		nIgn := 0
		for _, b := range fn.Blocks {
			if !inLoop[b] {
				continue
			}
			for _, in := range b.Instrs {
				c, ok := in.(*ssa.Call)
				if !ok {
					continue
				}
				name := ""
				if c.Call.IsInvoke() {
					name = c.Call.Method.Name()
				} else if callee := c.Call.StaticCallee(); callee != nil {
					name = callee.Name()
				}
				switch name {
				case "Read", "ReadByte", "ReadBytes", "ReadString", "ReadLine", "ReadRune", "ReadFull", "ReadAtLeast", "ReadFrom":
				default:
					continue
				}
				res := c.Call.Signature().Results()
				if res.Len() == 0 || res.At(res.Len()-1).Type().String() != "error" {
					continue
				}
				used := false
				if refs := c.Referrers(); refs != nil {
					for _, r := range *refs {
						if ex, ok := r.(*ssa.Extract); ok && ex.Index == res.Len()-1 {
							if er := ex.Referrers(); er != nil && len(*er) > 0 {
								used = true
							}
						}
						if res.Len() == 1 {
							if _, isDbg := r.(*ssa.DebugRef); !isDbg {
								used = true
							}
						}
					}
				}
				if used {
					continue
				}
				nIgn++
				pos := L.fset.Position(in.Pos())
				pstr := fmt.Sprintf("%s:%d", strings.TrimPrefix(pos.Filename, L.repoDir+"/"), pos.Line)
				s := site{id: fmt.Sprintf("%s/read-error-ignored/%s#%d", short, name, nIgn), pos: pstr, fn: short}
				if why, rev := func() (string, bool) { w, ok := c0.Reviewed[s.id]; return w, ok }(); rev {
					s.ok, s.desc = true, "reviewed: "+why
					notes = append(notes, s.id+" at "+pstr+" (reviewed: "+why+")")
				} else {
					s.desc = "the error of " + name + " is ignored inside a loop: once the peer is gone every read returns at once and the loop spins"
				}
				sites = append(sites, s)
			}
		}
		// reads of shared maps: decided below, once every write site is known
		nRead := 0
		for _, b := range fn.Blocks {
			for _, in := range b.Instrs {
				var m ssa.Value
				switch x := in.(type) {
				case *ssa.Lookup:
					if _, isMap := x.X.Type().Underlying().(*types.Map); isMap {
						m = x.X
					}
				case *ssa.Range:
					if _, isMap := x.X.Type().Underlying().(*types.Map); isMap {
						m = x.X
					}
				}
				if m == nil {
					continue
				}
				root, shared := sharedRoot(m)
				if !shared || mapIdentity(m) == "" {
					continue
				}
				nRead++
				pos := L.fset.Position(in.Pos())
				pstr := fmt.Sprintf("%s:%d", strings.TrimPrefix(pos.Filename, L.repoDir+"/"), pos.Line)
				s := site{id: fmt.Sprintf("%s/shared-map/read#%d", short, nRead), pos: pstr, fn: short}
				if lockDominates(fn, b, in, root, true) {
					s.ok, s.desc = true, "read of a shared map under a mutex of the same owner locked earlier in this function"
				} else if why, rev := c.Reviewed[s.id]; rev {
					s.ok, s.desc = true, "read of a shared map reviewed: "+why
					notes = append(notes, s.id+" at "+pstr+" (reviewed: "+why+")")
				} else {
					s.desc = "a map that is written while connections are served is read without a lock held: the runtime ends the process on concurrent map read and map write"
				}
				reads = append(reads, mapRead{s, mapIdentity(m)})
			}
		}
		if selfRec {
			sp := L.specFor(fn)
			s := site{id: short + "/recursion/decreases#1", pos: L.posOfFn(fn), fn: short}
			if sp != nil && sp.Decreases != nil && verified[L.funcKey(fn)] {
				s.ok, s.desc = true, "recursive function with a verified decreases clause"
			} else if why, rev := c.Reviewed[short]; rev {
				s.ok, s.desc = true, "recursive function reviewed: "+why
				notes = append(notes, short+" (recursion reviewed: "+why+")")
			} else {
				s.desc = "recursive function without a verified decreases clause: unbounded recursion (stack exhaustion is fatal) is not excluded"
			}
			sites = append(sites, s)
		}
	}
	for _, r := range reads {
		// a map that is only written before the first connection (reviewed write sites) may be read freely
		if written[r.ident] {
			sites = append(sites, r.s)
		}
	}
	sort.Slice(sites, func(i, j int) bool { return sites[i].id < sites[j].id })
	for _, s := range sites {
		goal := "false"
		if s.ok {
			goal = "true"
		}
		obls = append(obls, &Obligation{ID: s.id, Kind: "confine", Func: s.fn, Pos: s.pos, Desc: s.desc,
			Prefix: 1, Goal: goal, Script: []string{"(set-logic ALL)"}})
	}
	return
}

// sharedRoot: the map value is loaded from a field or element reached from a parameter, a captured
// variable or a package variable (as opposed to a map made or held in a local of this function).
func sharedRoot(m ssa.Value) (ssa.Value, bool) {
	u, ok := m.(*ssa.UnOp)
	if !ok || u.Op != token.MUL {
		return nil, false
	}
	a := u.X
	for i := 0; i < 16; i++ {
		switch x := a.(type) {
		case *ssa.FieldAddr:
			a = x.X
		case *ssa.IndexAddr:
			a = x.X
		case *ssa.UnOp:
			if x.Op != token.MUL {
				return nil, false
			}
			a = x.X
		case *ssa.Parameter, *ssa.FreeVar, *ssa.Global:
			return a, true
		default:
			return nil, false
		}
	}
	return nil, false
}

// mapIdentity names the variable that holds a shared map: the struct field or the package variable.
func mapIdentity(m ssa.Value) string {
	u, ok := m.(*ssa.UnOp)
	if !ok {
		return ""
	}
	switch x := u.X.(type) {
	case *ssa.FieldAddr:
		if pt, ok := x.X.Type().Underlying().(*types.Pointer); ok {
			if st, ok := pt.Elem().Underlying().(*types.Struct); ok {
				return pt.Elem().String() + "." + st.Field(x.Field).Name()
			}
		}
	case *ssa.Global:
		return x.String()
	}
	return ""
}

// lockDominates: a call of (*sync.Mutex).Lock or (*sync.RWMutex).Lock on a mutex reached from root
// precedes the instruction in its block or sits in a block that dominates it.
func lockDominates(fn *ssa.Function, blk *ssa.BasicBlock, at ssa.Instruction, root ssa.Value, read bool) bool {
	isLock := func(in ssa.Instruction) bool {
		c, ok := in.(*ssa.Call)
		if !ok {
			return false
		}
		callee := c.Call.StaticCallee()
		if callee == nil || callee.Pkg == nil || callee.Pkg.Pkg.Path() != "sync" || (callee.Name() != "Lock" && !(read && callee.Name() == "RLock")) || len(c.Call.Args) == 0 {
			return false
		}
		a := c.Call.Args[0]
		for i := 0; i < 16; i++ {
			switch x := a.(type) {
			case *ssa.FieldAddr:
				a = x.X
			case *ssa.IndexAddr:
				a = x.X
			case *ssa.UnOp:
				a = x.X
			default:
				return a == root
			}
		}
		return false
	}
	for _, b := range fn.Blocks {
		if b != blk && !b.Dominates(blk) {
			continue
		}
		for _, in := range b.Instrs {
			if b == blk && in == at {
				break
			}
			if isLock(in) {
				return true
			}
		}
	}
	return false
}

// globalFrame: companion of the receiver-frame rule for package-level state. The handler, the closures it
// makes and the module functions it calls (six levels; calls through function values: the same-package functions of that signature) contain no store, map update or delete whose
// target is reached from a package-level variable of the module.
func (L *Loader) globalFrame(fn *ssa.Function, accessors map[string]string) (obls []*Obligation) {
	short := L.funcKeyShort(fn)
	seen := map[*ssa.Function]bool{}
	bad := 0
	globalRoot := func(a ssa.Value) *ssa.Global {
		for i := 0; i < 16; i++ {
			switch x := a.(type) {
			case *ssa.FieldAddr:
				a = x.X
			case *ssa.IndexAddr:
				a = x.X
			case *ssa.UnOp:
				if x.Op != token.MUL {
					return nil
				}
				a = x.X
			case *ssa.Global:
				if x.Pkg != nil && strings.HasPrefix(x.Pkg.Pkg.Path(), modulePath) {
					return x
				}
				return nil
			default:
				return nil
			}
		}
		return nil
	}
	report := func(in ssa.Instruction, g *ssa.Global, what, via string) {
		bad++
		pos := L.fset.Position(in.Pos())
		obls = append(obls, &Obligation{ID: fmt.Sprintf("%s/global-frame/store#%d", short, bad), Kind: "confine", Func: short,
			Pos:  fmt.Sprintf("%s:%d", strings.TrimPrefix(pos.Filename, L.repoDir+"/"), pos.Line),
			Desc: what + " package-level variable " + g.Name() + via + ": state shared by all connections is written while a connection is served", Prefix: 1, Goal: "false", Script: []string{"(set-logic ALL)"}})
	}
	var visit func(f *ssa.Function, depth int, via string)
	visit = func(f *ssa.Function, depth int, via string) {
		if f == nil || seen[f] || depth > 6 || len(f.Blocks) == 0 {
			return
		}
		seen[f] = true
		for _, b := range f.Blocks {
			for _, in := range b.Instrs {
				switch x := in.(type) {
				case *ssa.Store:
					if g := globalRoot(x.Addr); g != nil {
						report(in, g, "store to", via)
					}
				case *ssa.MapUpdate:
					if g := globalRoot(x.Map); g != nil {
						report(in, g, "update of a map held by", via)
					}
				case *ssa.Send:
					if g := globalRoot(x.Chan); g != nil {
						report(in, g, "send on a channel held by", via)
					}
				case *ssa.Select:
					for _, st := range x.States {
						if st.Dir == types.SendOnly {
							if g := globalRoot(st.Chan); g != nil {
								report(in, g, "send on a channel held by", via)
							}
						}
					}
				case *ssa.MakeClosure:
					if cl, ok := x.Fn.(*ssa.Function); ok {
						visit(cl, depth, via)
					}
				case ssa.CallInstruction:
					cc := x.Common()
					if bi, ok := cc.Value.(*ssa.Builtin); ok && bi.Name() == "delete" && len(cc.Args) > 0 {
						if g := globalRoot(cc.Args[0]); g != nil {
							report(in, g, "delete from a map held by", via)
						}
					}
					if c, what, ok := mutatingContainerCall(cc); ok {
						if g, isG := addrRoot(c).(*ssa.Global); isG && g.Pkg != nil && strings.HasPrefix(g.Pkg.Pkg.Path(), modulePath) {
							report(in, g, what+" on", via)
						} else if g := globalRoot(c); g != nil {
							report(in, g, what+" on a container held by", via)
						}
					}
					if cc.StaticCallee() == nil && !cc.IsInvoke() {
						if _, isBuiltin := cc.Value.(*ssa.Builtin); !isBuiltin {
							// a call through a function value: the functions of this package with that signature
							for _, cand := range L.sameSignature(cc) {
								if pkgOf(cand) == pkgOf(f) {
									visit(cand, depth+1, " (in "+L.funcKeyShort(cand)+", a possible callee of a function value)")
								}
							}
						}
						continue
					}
					callee := cc.StaticCallee()
					if callee == nil || callee.Pkg == nil || !strings.HasPrefix(callee.Pkg.Pkg.Path(), modulePath) {
						continue
					}
					if _, acc := accessors[L.funcKeyShort(callee)]; acc {
						continue
					}
					visit(callee, depth+1, " (in "+L.funcKeyShort(callee)+")")
				}
			}
		}
	}
	visit(fn, 0, "")
	if bad == 0 {
		obls = append(obls, &Obligation{ID: short + "/global-frame/no-store#1", Kind: "confine", Func: short, Pos: L.posOfFn(fn),
			Desc: "no package-level variable of the module is written by this function, its closures or the module functions it calls", Prefix: 1, Goal: "true", Script: []string{"(set-logic ALL)"}})
	}
	return
}

// mutatingContainerCall: a call of a method of one of the standard mutable containers (sync.Pool, sync.Map,
// bytes.Buffer, strings.Builder, container/list.List) that can change it; the container is the first argument.
func mutatingContainerCall(cc *ssa.CallCommon) (ssa.Value, string, bool) {
	callee := cc.StaticCallee()
	if callee == nil || callee.Signature.Recv() == nil || len(cc.Args) == 0 {
		return nil, "", false
	}
	rt := callee.Signature.Recv().Type()
	if pt, ok := rt.(*types.Pointer); ok {
		rt = pt.Elem()
	}
	switch rt.String() {
	case "sync.Pool", "sync.Map", "bytes.Buffer", "strings.Builder", "container/list.List":
	default:
		return nil, "", false
	}
	switch callee.Name() {
	case "Load", "Range", "Len", "String", "Bytes", "Cap", "Front", "Back", "Available":
		return nil, "", false // readers
	}
	return cc.Args[0], rt.String() + "." + callee.Name(), true
}

// addrRoot strips field selection and indexing from an address (no loads): &g.f[i] -> g
func addrRoot(a ssa.Value) ssa.Value {
	for i := 0; i < 16; i++ {
		switch x := a.(type) {
		case *ssa.FieldAddr:
			a = x.X
		case *ssa.IndexAddr:
			a = x.X
		default:
			return a
		}
	}
	return a
}

// sameSignature: the module functions whose parameters (receiver first) and results have the types of this call.
func (L *Loader) sameSignature(cc *ssa.CallCommon) []*ssa.Function {
	sig := cc.Signature()
	var out []*ssa.Function
	for fn := range L.allFuncs {
		if p := pkgOf(fn); p == nil || !strings.HasPrefix(p.Pkg.Path(), modulePath) || len(fn.Blocks) == 0 || fn.Synthetic != "" {
			continue
		}
		if len(fn.Params) != sig.Params().Len() || fn.Signature.Results().Len() != sig.Results().Len() || len(fn.FreeVars) > 0 {
			continue
		}
		same := true
		for i, p := range fn.Params {
			if !types.Identical(p.Type(), sig.Params().At(i).Type()) {
				same = false
			}
		}
		for i := 0; same && i < sig.Results().Len(); i++ {
			if !types.Identical(fn.Signature.Results().At(i).Type(), sig.Results().At(i).Type()) {
				same = false
			}
		}
		if same {
			out = append(out, fn)
		}
	}
	sort.Slice(out, func(i, j int) bool { return L.funcKey(out[i]) < L.funcKey(out[j]) })
	return out
}

// eventAddrRule: structural rule for "no event carries another connection's address" (C03). In a handler
// Handle(ctx, conn) and the closures it makes, every event option built by event.SourceAddr / RemoteAddr
// takes its argument from conn.RemoteAddr() and every event.DestinationAddr from conn.LocalAddr(), where
// conn is the handler's own connection parameter (directly, through its captured cell, or converted to a
// string by the address's String method).
func (L *Loader) eventAddrRule(fn *ssa.Function) (obls []*Obligation) {
	short := L.funcKeyShort(fn)
	var conn *ssa.Parameter
	for _, p := range fn.Params {
		if p.Type().String() == "net.Conn" {
			conn = p
		}
	}
	if conn == nil {
		return nil
	}
	type scope struct {
		vals  map[ssa.Value]bool // values that are the connection
		cells map[ssa.Value]bool // addresses of cells that hold the connection
	}
	var bad []string
	n := 0
	seen := map[*ssa.Function]bool{}
	var visit func(f *ssa.Function, sc scope)
	visit = func(f *ssa.Function, sc scope) {
		if seen[f] {
			return
		}
		seen[f] = true
		// cells of this function that hold the connection: an Alloc into which only the connection is stored
		for _, b := range f.Blocks {
			for _, in := range b.Instrs {
				if st, ok := in.(*ssa.Store); ok && sc.vals[st.Val] {
					if al, ok := st.Addr.(*ssa.Alloc); ok {
						sc.cells[al] = true
					}
				}
			}
		}
		for _, b := range f.Blocks {
			for _, in := range b.Instrs {
				if st, ok := in.(*ssa.Store); ok && sc.cells[st.Addr] && !sc.vals[st.Val] {
					delete(sc.cells, st.Addr) // reassigned: no longer known to be the connection
				}
			}
		}
		isConn := func(v ssa.Value) bool {
			if sc.vals[v] {
				return true
			}
			if u, ok := v.(*ssa.UnOp); ok && u.Op == token.MUL && sc.cells[u.X] {
				return true
			}
			if ci, ok := v.(*ssa.ChangeInterface); ok {
				return sc.vals[ci.X]
			}
			return false
		}
		// addrOf: v is conn.<method>() possibly followed by .String()
		var addrOf func(v ssa.Value, method string, depth int) bool
		addrOf = func(v ssa.Value, method string, depth int) bool {
			c, ok := v.(*ssa.Call)
			if !ok || depth > 2 {
				return false
			}
			if c.Call.IsInvoke() && c.Call.Method.Name() == method && isConn(c.Call.Value) {
				return true
			}
			if c.Call.IsInvoke() && c.Call.Method.Name() == "String" {
				return addrOf(c.Call.Value, method, depth+1)
			}
			return false
		}
		for _, b := range f.Blocks {
			for _, in := range b.Instrs {
				switch x := in.(type) {
				case *ssa.MakeClosure:
					cl, ok := x.Fn.(*ssa.Function)
					if !ok {
						continue
					}
					inner := scope{vals: map[ssa.Value]bool{}, cells: map[ssa.Value]bool{}}
					for i, bnd := range x.Bindings {
						if i >= len(cl.FreeVars) {
							break
						}
						if sc.cells[bnd] {
							inner.cells[cl.FreeVars[i]] = true
						} else if isConn(bnd) {
							inner.vals[cl.FreeVars[i]] = true
						}
					}
					visit(cl, inner)
				case *ssa.Call:
					callee := x.Call.StaticCallee()
					if callee == nil || callee.Pkg == nil || callee.Pkg.Pkg.Path() != modulePath+"/event" || len(x.Call.Args) != 1 {
						continue
					}
					want := ""
					switch callee.Name() {
					case "SourceAddr", "RemoteAddr":
						want = "RemoteAddr"
					case "DestinationAddr":
						want = "LocalAddr"
					default:
						continue
					}
					n++
					if !addrOf(x.Call.Args[0], want, 0) {
						pos := L.fset.Position(x.Pos())
						bad = append(bad, fmt.Sprintf("%s:%d event.%s", strings.TrimPrefix(pos.Filename, L.repoDir+"/"), pos.Line, callee.Name()))
					}
				}
			}
		}
	}
	visit(fn, scope{vals: map[ssa.Value]bool{conn: true}, cells: map[ssa.Value]bool{}})
	if n == 0 {
		return nil
	}
	if len(bad) == 0 {
		return []*Obligation{{ID: short + "/event-address/own-connection#1", Kind: "confine", Func: short, Pos: L.posOfFn(fn),
			Desc: fmt.Sprintf("all %d address options of the events built here are taken from the handler's own connection", n), Prefix: 1, Goal: "true", Script: []string{"(set-logic ALL)"}}}
	}
	for i, b := range bad {
		obls = append(obls, &Obligation{ID: fmt.Sprintf("%s/event-address/other-source#%d", short, i+1), Kind: "confine", Func: short, Pos: strings.SplitN(b, " ", 2)[0],
			Desc: "the address of an event is not taken from the handler's own connection (" + b + ")", Prefix: 1, Goal: "false", Script: []string{"(set-logic ALL)"}})
	}
	return
}

// unbufferedChans: every channel made by the function (and its closures) is unbuffered, so that a send
// completes only when the receiving pump has taken the item (an item cannot be left queued when the pump is
// told to stop).
func (L *Loader) unbufferedChans(fn *ssa.Function) (obls []*Obligation) {
	short := L.funcKeyShort(fn)
	n, bad := 0, 0
	var visit func(f *ssa.Function)
	seen := map[*ssa.Function]bool{}
	visit = func(f *ssa.Function) {
		if seen[f] {
			return
		}
		seen[f] = true
		for _, b := range f.Blocks {
			for _, in := range b.Instrs {
				switch x := in.(type) {
				case *ssa.MakeClosure:
					if cl, ok := x.Fn.(*ssa.Function); ok {
						visit(cl)
					}
				case *ssa.MakeChan:
					n++
					if c, ok := x.Size.(*ssa.Const); ok && c.Value != nil && c.Int64() == 0 {
						continue
					}
					bad++
					pos := L.fset.Position(x.Pos())
					obls = append(obls, &Obligation{ID: fmt.Sprintf("%s/unbuffered-channel/make#%d", short, bad), Kind: "confine", Func: short,
						Pos:  fmt.Sprintf("%s:%d", strings.TrimPrefix(pos.Filename, L.repoDir+"/"), pos.Line),
						Desc: "a buffered channel is made here: items still queued when the pump is stopped are lost", Prefix: 1, Goal: "false", Script: []string{"(set-logic ALL)"}})
				}
			}
		}
	}
	visit(fn)
	if bad == 0 {
		obls = append(obls, &Obligation{ID: short + "/unbuffered-channel/all#1", Kind: "confine", Func: short, Pos: L.posOfFn(fn),
			Desc: fmt.Sprintf("all %d channels made here are unbuffered", n), Prefix: 1, Goal: "true", Script: []string{"(set-logic ALL)"}})
	}
	return
}

// SingleSender: the channel held in a struct field is sent on in the listed functions only (so that a
// contract counting the sends of those functions counts all sends on that channel).
type SingleSender struct {
	Field  string   `json:"field"`   // "<package path>.<Type>.<field>"
	OnlyIn []string `json:"only_in"` // short function keys
}

// singleWriterRule: a struct field receives a non-nil value only in the listed functions (so that a contract
// on those functions speaks for every assignment of the field). Same configuration shape as SingleSender.
func (L *Loader) singleWriterRule(rules []SingleSender) (obls []*Obligation) {
	var fns []*ssa.Function
	for fn := range L.allFuncs {
		fns = append(fns, fn)
	}
	sort.Slice(fns, func(i, j int) bool { return L.funcKey(fns[i]) < L.funcKey(fns[j]) })
	for _, r := range rules {
		allowed := map[string]bool{}
		for _, a := range r.OnlyIn {
			allowed[a] = true
		}
		n, bad := 0, 0
		for _, fn := range fns {
			if p := pkgOf(fn); p == nil || !strings.HasPrefix(p.Pkg.Path(), modulePath) || strings.HasSuffix(L.fset.Position(fn.Pos()).Filename, "_test.go") {
				continue
			}
			for _, b := range fn.Blocks {
				for _, in := range b.Instrs {
					st, ok := in.(*ssa.Store)
					if !ok {
						continue
					}
					fa, ok := st.Addr.(*ssa.FieldAddr)
					if !ok {
						continue
					}
					pt, ok := fa.X.Type().Underlying().(*types.Pointer)
					if !ok {
						continue
					}
					sty, ok := pt.Elem().Underlying().(*types.Struct)
					if !ok || strings.TrimPrefix(pt.Elem().String(), modulePath+"/")+"."+sty.Field(fa.Field).Name() != r.Field {
						continue
					}
					if c, isConst := st.Val.(*ssa.Const); isConst && c.IsNil() {
						continue // clearing the field
					}
					if _, isAlloc := fa.X.(*ssa.Alloc); isAlloc {
						continue // initialising a freshly made object (composite literal)
					}
					n++
					if !allowed[L.funcKeyShort(fn)] {
						bad++
						pos := L.fset.Position(in.Pos())
						obls = append(obls, &Obligation{ID: fmt.Sprintf("%s/single-writer/%s#%d", L.funcKeyShort(fn), r.Field, bad), Kind: "confine", Func: L.funcKeyShort(fn),
							Pos:  fmt.Sprintf("%s:%d", strings.TrimPrefix(pos.Filename, L.repoDir+"/"), pos.Line),
							Desc: "assignment of " + r.Field + " outside " + strings.Join(r.OnlyIn, ", ") + ": the contract that releases the replaced value does not see it", Prefix: 1, Goal: "false", Script: []string{"(set-logic ALL)"}})
					}
				}
			}
		}
		if bad == 0 {
			goal, desc := "true", fmt.Sprintf("all %d assignments of a value to %s are in %s", n, r.Field, strings.Join(r.OnlyIn, ", "))
			if n == 0 {
				goal, desc = "false", "no assignment of "+r.Field+" found: the rule names a field that does not exist"
			}
			obls = append(obls, &Obligation{ID: "single-writer/" + r.Field + "#1", Kind: "confine", Func: r.OnlyIn[0], Pos: "props", Desc: desc, Prefix: 1, Goal: goal, Script: []string{"(set-logic ALL)"}})
		}
	}
	return
}

func (L *Loader) singleSenderRule(rules []SingleSender) (obls []*Obligation) {
	var fns []*ssa.Function
	for fn := range L.allFuncs {
		fns = append(fns, fn)
	}
	sort.Slice(fns, func(i, j int) bool { return L.funcKey(fns[i]) < L.funcKey(fns[j]) })
	fieldOf := func(ch ssa.Value) string {
		u, ok := ch.(*ssa.UnOp)
		if !ok || u.Op != token.MUL {
			return ""
		}
		fa, ok := u.X.(*ssa.FieldAddr)
		if !ok {
			return ""
		}
		pt, ok := fa.X.Type().Underlying().(*types.Pointer)
		if !ok {
			return ""
		}
		st, ok := pt.Elem().Underlying().(*types.Struct)
		if !ok {
			return ""
		}
		return strings.TrimPrefix(pt.Elem().String(), modulePath+"/") + "." + st.Field(fa.Field).Name()
	}
	for _, r := range rules {
		allowed := map[string]bool{}
		for _, a := range r.OnlyIn {
			allowed[a] = true
		}
		n, bad := 0, 0
		for _, fn := range fns {
			if p := pkgOf(fn); p == nil || !strings.HasPrefix(p.Pkg.Path(), modulePath) || strings.HasSuffix(L.fset.Position(fn.Pos()).Filename, "_test.go") {
				continue
			}
			for _, b := range fn.Blocks {
				for _, in := range b.Instrs {
					var chans []ssa.Value
					switch x := in.(type) {
					case *ssa.Send:
						chans = append(chans, x.Chan)
					case *ssa.Select:
						for _, st := range x.States {
							if st.Dir == types.SendOnly {
								chans = append(chans, st.Chan)
							}
						}
					}
					for _, ch := range chans {
						if fieldOf(ch) != r.Field {
							continue
						}
						n++
						if !allowed[L.funcKeyShort(fn)] {
							bad++
							pos := L.fset.Position(in.Pos())
							obls = append(obls, &Obligation{ID: fmt.Sprintf("%s/single-sender/%s#%d", L.funcKeyShort(fn), r.Field, bad), Kind: "confine", Func: L.funcKeyShort(fn),
								Pos:  fmt.Sprintf("%s:%d", strings.TrimPrefix(pos.Filename, L.repoDir+"/"), pos.Line),
								Desc: "send on " + r.Field + " outside " + strings.Join(r.OnlyIn, ", ") + ": the contracts that count the sends on this channel do not see it", Prefix: 1, Goal: "false", Script: []string{"(set-logic ALL)"}})
						}
					}
				}
			}
		}
		if bad == 0 {
			goal, desc := "true", fmt.Sprintf("all %d sends on %s are in %s", n, r.Field, strings.Join(r.OnlyIn, ", "))
			if n == 0 {
				goal, desc = "false", "no send on "+r.Field+" found: the rule names a field that does not exist or is never sent on"
			}
			obls = append(obls, &Obligation{ID: "single-sender/" + r.Field + "#1", Kind: "confine", Func: r.OnlyIn[0], Pos: "props", Desc: desc, Prefix: 1, Goal: goal, Script: []string{"(set-logic ALL)"}})
		}
	}
	return
}

func (L *Loader) posOfFn(fn *ssa.Function) string {
	pos := L.fset.Position(fn.Pos())
	return fmt.Sprintf("%s:%d", strings.TrimPrefix(pos.Filename, L.repoDir+"/"), pos.Line)
}

// receiverFrame: structural frame rule for per-connection handlers (C03). The function (and the module
// functions it hands its receiver to, three levels deep) contains no store whose address is derived from
// the receiver parameter by field and index selection: whatever state it keeps, it keeps elsewhere.
// Closures that capture the receiver and goroutines started with it are followed as well.
// Writes through pointers loaded from the receiver's fields are not covered.
func (L *Loader) receiverFrame(fn *ssa.Function, accessors map[string]string) (obls []*Obligation) {
	short := L.funcKeyShort(fn)
	var visit func(f *ssa.Function, recv ssa.Value, depth int, via string)
	seen := map[*ssa.Function]bool{}
	n := 0
	bad := 0
	// a captured parameter lives in a cell (Alloc) that the closures share: the cell stands for the
	// receiver when the receiver is the only value ever stored in it
	cellOf := func(f *ssa.Function, recv ssa.Value) ssa.Value {
		var cell *ssa.Alloc
		for _, b := range f.Blocks {
			for _, in := range b.Instrs {
				if st, ok := in.(*ssa.Store); ok && st.Val == recv {
					if al, ok := st.Addr.(*ssa.Alloc); ok {
						cell = al
					}
				}
			}
		}
		if cell == nil {
			return nil
		}
		for _, b := range f.Blocks {
			for _, in := range b.Instrs {
				if st, ok := in.(*ssa.Store); ok && st.Addr == cell && st.Val != recv {
					return nil
				}
			}
		}
		return cell
	}
	var cell ssa.Value
	rooted := func(a ssa.Value, recv ssa.Value) bool {
		for i := 0; i < 16; i++ {
			switch x := a.(type) {
			case *ssa.FieldAddr:
				a = x.X
			case *ssa.IndexAddr:
				a = x.X
			case *ssa.UnOp:
				// a load: the object is reached through a pointer, slice or map held in the receiver
				if x.Op != token.MUL {
					return false
				}
				a = x.X
			default:
				return a == recv || (cell != nil && a == cell)
			}
		}
		return false
	}
	visit = func(f *ssa.Function, recv ssa.Value, depth int, via string) {
		if f == nil || seen[f] || depth > 3 || len(f.Blocks) == 0 {
			return
		}
		seen[f] = true
		myCell := cellOf(f, recv)
		for _, b := range f.Blocks {
			for _, in := range b.Instrs {
				cell = myCell
				switch x := in.(type) {
				case *ssa.Store:
					if x.Addr == myCell {
						continue
					}
					if rooted(x.Addr, recv) {
						n++
						bad++
						pos := L.fset.Position(x.Pos())
						obls = append(obls, &Obligation{ID: fmt.Sprintf("%s/receiver-frame/store#%d", short, bad), Kind: "confine", Func: short,
							Pos:  fmt.Sprintf("%s:%d", strings.TrimPrefix(pos.Filename, L.repoDir+"/"), pos.Line),
							Desc: "a field of the shared receiver is written" + via + ": per-connection state kept on an object shared by all connections", Prefix: 1, Goal: "false", Script: []string{"(set-logic ALL)"}})
					}
				case *ssa.MapUpdate:
					if rooted(x.Map, recv) {
						n++
						bad++
						pos := L.fset.Position(x.Pos())
						obls = append(obls, &Obligation{ID: fmt.Sprintf("%s/receiver-frame/store#%d", short, bad), Kind: "confine", Func: short,
							Pos:  fmt.Sprintf("%s:%d", strings.TrimPrefix(pos.Filename, L.repoDir+"/"), pos.Line),
							Desc: "a map held by the shared receiver is updated" + via + ": per-connection state kept on an object shared by all connections", Prefix: 1, Goal: "false", Script: []string{"(set-logic ALL)"}})
					}
				case *ssa.MakeClosure:
					// a closure that captures the receiver writes on the handler's behalf
					if cl, ok := x.Fn.(*ssa.Function); ok {
						for i, a := range x.Bindings {
							if (a == recv || (myCell != nil && a == myCell)) && i < len(cl.FreeVars) {
								visit(cl, cl.FreeVars[i], depth, via)
							}
						}
					}
				case ssa.CallInstruction:
					cc := x.Common()
					if b, ok := cc.Value.(*ssa.Builtin); ok && b.Name() == "delete" && len(cc.Args) > 0 && rooted(cc.Args[0], recv) {
						n++
						bad++
						pos := L.fset.Position(x.Pos())
						obls = append(obls, &Obligation{ID: fmt.Sprintf("%s/receiver-frame/store#%d", short, bad), Kind: "confine", Func: short,
							Pos:  fmt.Sprintf("%s:%d", strings.TrimPrefix(pos.Filename, L.repoDir+"/"), pos.Line),
							Desc: "an entry of a map held by the shared receiver is deleted" + via, Prefix: 1, Goal: "false", Script: []string{"(set-logic ALL)"}})
					}
					if bi, ok := cc.Value.(*ssa.Builtin); ok && bi.Name() == "append" && len(cc.Args) > 0 && rooted(cc.Args[0], recv) {
						// append to a slice held by the receiver may write into its backing array (spare capacity)
						n++
						bad++
						pos := L.fset.Position(x.Pos())
						obls = append(obls, &Obligation{ID: fmt.Sprintf("%s/receiver-frame/store#%d", short, bad), Kind: "confine", Func: short,
							Pos:  fmt.Sprintf("%s:%d", strings.TrimPrefix(pos.Filename, L.repoDir+"/"), pos.Line),
							Desc: "append to a slice held by the shared receiver" + via + ": with spare capacity the elements are written into the backing array that all connections share", Prefix: 1, Goal: "false", Script: []string{"(set-logic ALL)"}})
					}
					if c, what, ok := mutatingContainerCall(cc); ok && rooted(c, recv) {
						n++
						bad++
						pos := L.fset.Position(x.Pos())
						obls = append(obls, &Obligation{ID: fmt.Sprintf("%s/receiver-frame/store#%d", short, bad), Kind: "confine", Func: short,
							Pos:  fmt.Sprintf("%s:%d", strings.TrimPrefix(pos.Filename, L.repoDir+"/"), pos.Line),
							Desc: what + " on a container held by the shared receiver" + via, Prefix: 1, Goal: "false", Script: []string{"(set-logic ALL)"}})
					}
					isRecv := func(a ssa.Value) bool {
						if u, ok := a.(*ssa.UnOp); ok && myCell != nil && u.X == myCell {
							return true // the receiver read back from its cell
						}
						return a == recv
					}
					callee := cc.StaticCallee()
					if callee == nil && !cc.IsInvoke() {
						// a call through a function value that is handed the receiver: every module function of that
						// signature may be the callee (command tables are built from method expressions)
						if _, isBuiltin := cc.Value.(*ssa.Builtin); !isBuiltin {
							for i, a := range cc.Args {
								if !isRecv(a) {
									continue
								}
								for _, cand := range L.sameSignature(cc) {
									if _, acc := accessors[L.funcKeyShort(cand)]; !acc {
										visit(cand, cand.Params[i], depth+1, " (in "+L.funcKeyShort(cand)+", a possible callee of a function value)")
									}
								}
							}
						}
						continue
					}
					if callee == nil || callee.Pkg == nil || !strings.HasPrefix(callee.Pkg.Pkg.Path(), modulePath) {
						continue
					}
					if _, acc := accessors[L.funcKeyShort(callee)]; acc {
						continue
					}
					for i, a := range cc.Args {
						if isRecv(a) && i < len(callee.Params) {
							visit(callee, callee.Params[i], depth+1, " (in "+L.funcKeyShort(callee)+")")
						}
					}
				}
			}
		}
	}
	if len(fn.Params) > 0 {
		visit(fn, fn.Params[0], 0, "")
	}
	if bad == 0 {
		obls = append(obls, &Obligation{ID: short + "/receiver-frame/no-store#1", Kind: "confine", Func: short, Pos: L.posOfFn(fn),
			Desc: "no field of the shared receiver is written by this function or the functions it hands the receiver to", Prefix: 1, Goal: "true", Script: []string{"(set-logic ALL)"}})
	}
	return
}
