package vnc

// Hand replay for vnc.(*Conn).pushFramesLoop/recover-frame (property C01): frames are pushed by a
// goroutine of their own (go c.pushFramesLoop()) that has no recover. A client that selects a pixel
// format without true colour and then asks for a frame makes pushImage call failf, i.e. panic, on that
// goroutine: an unrecovered panic that ends the whole process. Runs in a child process; the parent
// reports how the child ended.

import (
	"bytes"
	"context"
	"image"
	"io"
	"net"
	"os"
	"os/exec"
	"strings"
	"testing"
	"time"

	"github.com/honeytrap/honeytrap/pushers"
)

func TestHandVNCPixelFormatPanic(t *testing.T) {
	cmd := exec.Command(os.Args[0], "-test.run", "TestHandVNCPixelFormatPanicChild")
	cmd.Env = append(os.Environ(), "C01_CHILD=1")
	var out bytes.Buffer
	cmd.Stdout, cmd.Stderr = &out, &out
	err := cmd.Run()
	if err != nil {
		s := out.String()
		if i := strings.Index(s, "panic:"); i >= 0 {
			s = s[i:]
		}
		if len(s) > 200 {
			s = s[:200]
		}
		t.Fatalf("the process serving VNC died: %v\n%s", err, s)
	}
}

func TestHandVNCPixelFormatPanicChild(t *testing.T) {
	if os.Getenv("C01_CHILD") == "" {
		return
	}
	c, _ := pushers.Dummy()
	s := &vncService{c: c, li: &LockableImage{Img: image.NewRGBA(image.Rect(0, 0, 8, 8))}}
	l, err := net.Listen("tcp", "127.0.0.1:0")
	if err != nil {
		t.Fatal(err)
	}
	defer l.Close()
	go func() {
		srv, err := l.Accept()
		if err == nil {
			s.Handle(context.Background(), srv)
		}
	}()
	clt, err := net.Dial("tcp", l.Addr().String())
	if err != nil {
		t.Fatal(err)
	}
	defer clt.Close()
	clt.SetDeadline(time.Now().Add(5 * time.Second))
	buf := make([]byte, 64)
	io.ReadFull(clt, buf[:12]) // RFB 003.008\n
	clt.Write([]byte("RFB 003.008\n"))
	io.ReadFull(clt, buf[:2]) // one security type: none
	clt.Write([]byte{1})
	io.ReadFull(clt, buf[:4]) // security result
	clt.Write([]byte{1})      // shared flag
	io.ReadFull(clt, buf[:24]) // server init (empty name)
	// SetPixelFormat: 8 bpp, depth 8, colour map (true-colour flag 0)
	clt.Write([]byte{0, 0, 0, 0, 8, 8, 0, 0, 0, 7, 0, 7, 0, 3, 0, 3, 6, 0, 0, 0})
	// FramebufferUpdateRequest, not incremental, whole screen
	clt.Write([]byte{3, 0, 0, 0, 0, 0, 0, 8, 0, 8})
	time.Sleep(1 * time.Second) // the frame pusher runs on its own goroutine
}
