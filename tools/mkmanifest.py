#!/usr/bin/env python3
"""Regenerates /verif/MANIFEST.json from props/*.json and tools/manifest_texts.json."""
import json, glob, os, subprocess
V='/verif'
texts=json.load(open(V+'/tools/manifest_texts.json'))
props=[json.loads(l) for l in open(V+'/properties.jsonl')]
ids=[p['id'] for p in props]
claimed=sorted(os.path.basename(f)[:-5] for f in glob.glob(V+'/props/C*.json'))
hooks=subprocess.run(['git','-C','/repo','log','--format=%H %s'],capture_output=True,text=True).stdout.strip().split('\n')
hook_commits=[l.split()[0] for l in hooks if l.split(' ',1)[1].startswith('verif:')]
checks=[]
for i in claimed:
    t=texts['checks'].get(i,{})
    checks.append({
      "property_id": i,
      "quick_cmd": "./check %s --tier quick"%i,
      "thorough_cmd": "./check %s --tier thorough"%i,
      "evidence_file": "/verif/evidence/%s.json"%i,
      "replay_cmd_template": "./tools/replay {path}",
      "engine": "govc",
      "level_claimed": {"category":"proof","text":t.get('level_text',''),"design_ref":"DESIGN.md §5 "+i},
      "level_note": t.get('level_note',''),
      "technique": t.get('technique','contract-based deductive verification: VCs generated from go/ssa of the real functions, discharged by z3/cvc5'),
    })
na=[{"property_id":i,"reason":texts['not_applicable'].get(i,"no check registered yet: contracts for this property have not been written in this build; see DESIGN.md §5 "+i+" for the plan")} for i in ids if i not in claimed]
m={
 "version":1,
 "setup_cmd":"cd /verif/govc && GOFLAGS=-mod=mod GOPROXY=off GOSUMDB=off GOTOOLCHAIN=local go build -o /verif/bin/govc .",
 "hooks":{"guard":"verif","enable":"go build -tags verif (the tag only adds comment-only contracts_verif.go files; govc loads packages with -tags=verif)",
          "baseline_off_cmd":"cd /repo && GOFLAGS=-mod=mod GOPROXY=off GOSUMDB=off go test -json -vet=off -count=1 -timeout 25m ./...",
          "source_commits":hook_commits,"add_only":True},
 "engines":[{"name":"govc","path":"/verif/govc","serves_properties":claimed,"kind_free_text":"verification-condition generator for Go written for this task: go/packages+go/ssa of /repo's working tree -> symbolic execution with state merging, Burstall-Bornat heap, exact bit-vector integers -> one SMT-LIB2 query per named obligation -> z3 5.1.0 / z3 4.8.12 / cvc5 1.0.3 portfolio; contracts are //@ comments in /repo/<pkg>/contracts_verif.go (build tag verif); counterexamples are replayed on the real code with go test -overlay"}],
 "checks":checks,
 "not_applicable":na,
 "notes":texts.get('notes','')
}
json.dump(m,open(V+'/MANIFEST.json','w'),indent=1)
print("claimed",claimed,"na",len(na))
