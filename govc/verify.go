package main

import (
	"fmt"
	"os"
	"go/types"
	"regexp"
	"sort"
	"strings"

	"golang.org/x/tools/go/ssa"
)

type FuncResult struct {
	Key         string
	Short       string
	Spec        *FuncSpec
	Obls        []*Obligation
	Flags       []string
	Assumed     []string
	Inlined     []string
	Errs        []string
	Lines       []string
	Checks      []string
	NInstr      int
	DroppedAuto []string
}

// verifyFunc generates all obligations of one function under contract.
func (L *Loader) verifyFunc(fn *ssa.Function, spec *FuncSpec) (res *FuncResult) {
	return L.verifyFuncAuto(fn, spec, nil)
}

// verifyFuncHoudini: generate, discharge the inferred-invariant obligations, drop the
// candidates that are not inductive, regenerate; returns the final obligation set.
func (L *Loader) verifyFuncHoudini(fn *ssa.Function, spec *FuncSpec, opt *solveOpts) *FuncResult {
	disabled := map[string]bool{}
	for round := 0; round < 8; round++ {
		r := L.verifyFuncAuto(fn, spec, disabled)
		var auto []*Obligation
		for _, o := range r.Obls {
			if strings.HasPrefix(o.Kind, "auto-inv") {
				auto = append(auto, o)
			}
		}
		if len(auto) == 0 {
			return r
		}
		// candidates are guesses: one that is not proved at once is dropped, never retried
		hopt := *opt
		hopt.noRetry = true
		dischargeAll(auto, &hopt)
		dropped := false
		for _, o := range auto {
			if o.Verdict != "unsat" {
				// ID: <func>/<kind>/<candidate id>#n
				id := o.ID[strings.Index(o.ID, "/"+o.Kind+"/")+len(o.Kind)+2:]
				id = id[:strings.LastIndex(id, "#")]
				if !disabled[id] {
					disabled[id] = true
					dropped = true
				}
			}
		}
		if !dropped {
			var ds []string
			for d := range disabled {
				ds = append(ds, d)
			}
			sort.Strings(ds)
			r.DroppedAuto = ds
			return r
		}
	}
	r := L.verifyFuncAuto(fn, spec, disabled)
	return r
}

func (L *Loader) verifyFuncAuto(fn *ssa.Function, spec *FuncSpec, disabled map[string]bool) (res *FuncResult) {
	L.curTop = fn
	e := newExec(L, fn, spec)
	e.disabledAuto = disabled
	res = &FuncResult{Key: L.funcKey(fn), Short: L.funcKeyShort(fn), Spec: spec}
	defer func() {
		if r := recover(); r != nil {
			res.Errs = append(res.Errs, fmt.Sprintf("engine panic: %v", r))
			res.Obls = nil
			if debugPanics {
				panic(r)
			}
		}
	}()
	for _, b := range fn.Blocks {
		res.NInstr += len(b.Instrs)
	}
	e.emit("(declare-const alloc0 Int)")
	e.assume("(>= alloc0 0)")
	st := &State{gen: 0, heap: map[string]string{}, alloc: "alloc0"}
	var args []Val
	for _, p := range fn.Params {
		v := e.freshVal(p.Type(), "p_"+p.Name(), "true")
		e.constrainInput(&v, p.Type())
		args = append(args, v)
		e.paramOrder = append(e.paramOrder, p.Name())
	}
	var binds []Val
	for _, fv := range fn.FreeVars {
		v := e.freshVal(fv.Type(), "fv_"+fv.Name(), "true")
		e.constrainInput(&v, fv.Type())
		binds = append(binds, v)
	}
	e.params = map[string]Val{}
	for i, p := range fn.Params {
		e.params[p.Name()] = args[i]
	}
	if fn.Name() == "init" && fn.Synthetic != "" {
		// the initialiser body runs once: its guard is still false on entry
		e.heapSet(st, "G:"+fn.Pkg.Pkg.Path()+".init$guard#0", sBool, "false")
	}
	e.entry = st.clone()
	// preconditions
	fr0 := &Frame{e: e, fn: fn, vals: map[ssa.Value]Val{}}
	for i, p := range fn.Params {
		fr0.vals[p] = args[i]
	}
	for i, fv := range fn.FreeVars {
		fr0.vals[fv] = binds[i]
	}
	if spec != nil {
		env := e.baseEnv(fr0, st)
		for _, r := range append(append([]Clause{}, spec.Physical...), spec.Requires...) {
			t, err := env.evalBool(r.E)
			if err != nil {
				e.errs = append(e.errs, fmt.Sprintf("%s: %v", r.Line, err))
				continue
			}
			e.assume(t)
		}
		for _, r := range spec.Physical {
			e.flag("physical-assumption: " + r.Src)
		}
		if len(spec.Requires) > 0 {
			e.cover("requires", "true", spec.File)
		}
		if spec.Decreases != nil {
			if v, err := env.eval(spec.Decreases.E); err == nil {
				e.variant0 = e.toBV64(v)
			} else {
				e.errs = append(e.errs, fmt.Sprintf("%s: %v", spec.Decreases.Line, err))
			}
		}
	}
	// package invariants: the ensures clauses of the package initialiser's contract, provided
	// they only mention package-level variables that nothing but init ever writes
	if p := pkgOf(fn); p != nil && fn.Name() != "init" {
		if isp := L.specs.Funcs[p.Pkg.Path()+".init"]; isp != nil {
			env := e.baseEnv(fr0, st)
			env.vars = map[string]Val{}
			for _, en := range isp.Ensures {
				t, err := env.evalBool(en.E)
				if err != nil {
					e.errs = append(e.errs, fmt.Sprintf("%s: %v", en.Line, err))
					continue
				}
				okInv := false
				for _, m := range reGlobalKey.FindAllStringSubmatch(t, -1) {
					okInv = true
					if !L.immutableGlobalKey("G:" + m[1]) {
						okInv = false
						e.errs = append(e.errs, fmt.Sprintf("%s: package invariant mentions %s, which is written outside init", en.Line, m[1]))
						break
					}
				}
				if okInv {
					e.assume(t)
					e.flag("package-invariant-from-init: " + en.Src)
				}
			}
		}
	}
	e.entry = st.clone()
	e.collectInputs(fn, args, binds)
	if spec != nil && spec.NoEscape {
		e.recoverFrame(fn)
	}
	if spec == nil || !spec.NoEscape || len(spec.Checks) > 0 || len(spec.Ensures) > 0 || len(spec.CallPre) > 0 {
		e.runBody(fn, args, binds, st, "true", 0, "")
	}
	res.Obls = e.obls
	for _, o := range res.Obls {
		o.Script = e.lines
		if o.Inputs == nil {
			o.Inputs = e.inputs
		}
	}
	seenMV := map[string]bool{}
	for _, o := range e.missingVariants {
		if !seenMV[o.ID] {
			seenMV[o.ID] = true
			res.Obls = append(res.Obls, o)
		}
	}
	for f := range e.flags {
		res.Flags = append(res.Flags, f)
	}
	sort.Strings(res.Flags)
	for f := range e.assumedUsed {
		res.Assumed = append(res.Assumed, f)
	}
	sort.Strings(res.Assumed)
	for f := range e.inlined {
		res.Inlined = append(res.Inlined, f)
	}
	sort.Strings(res.Inlined)
	res.Errs = e.errs
	res.Lines = e.lines
	for k := range e.checks {
		res.Checks = append(res.Checks, k)
	}
	sort.Strings(res.Checks)
	return res
}

var debugPanics = false

var reUnknownID = regexp.MustCompile(`unknown identifier "([A-Za-z_][A-Za-z0-9_]*)"`)

var reGlobalKey = regexp.MustCompile(`H0_G:([^#|]+)#`)

// constrainInput: what holds for every value that enters the function from outside.
func (e *Exec) constrainInput(v *Val, T types.Type) {
	switch u := T.Underlying().(type) {
	case *types.Pointer:
		if v.S != "" {
			e.assume(mkAnd(mkNot(mkEq(v.S, "0")), app("<=", v.S, "alloc0")))
			v.NN = true
		}
		_ = u
	case *types.Slice:
		e.assume(app("<=", v.sBase(), "alloc0"))
	case *types.Map, *types.Chan:
		e.assume(app("<=", v.S, "alloc0"))
	case *types.Struct:
		for i := range v.F {
			e.constrainInput(&v.F[i], u.Field(i).Type())
		}
	case *types.Interface:
		if v.S != "" {
			e.assume(app("<=", app("iref", v.S), "alloc0"))
		}
	}
}

// atReturn: postconditions and frame, checked at every return of the top-level function.
func (e *Exec) atReturn(fr *Frame, ret *ssa.Return, rv Val) {
	pos := e.posOf(ret.Pos())
	retName := fmt.Sprintf("ret@b%d", fr.cur.Index)
	_ = retName
	if e.spec == nil {
		return
	}
	e.cover("return", fr.pc, pos)
	env := e.baseEnv(fr, fr.st)
	var resT types.Type = fr.fn.Signature.Results()
	if fr.fn.Signature.Results().Len() == 1 {
		resT = fr.fn.Signature.Results().At(0).Type()
	}
	if fr.fn.Signature.Results().Len() > 0 {
		env.bindResult(fr.fn, resT, rv)
	}
	for i, en := range e.spec.Ensures {
		if strings.HasPrefix(en.Label, "assumed") {
			// definitional clause (names the result of a deterministic function by an uninterpreted
			// function): used by callers, not provable from the body; listed as an assumption
			e.flag("assumed-clause: " + en.Src)
			continue
		}
		t, err := env.evalBool(en.E)
		if err != nil {
			// a clause that names a local variable which is not yet defined at this return says
			// nothing about this return (it is still checked at every return where it is defined)
			if m := reUnknownID.FindStringSubmatch(err.Error()); m != nil && e.L.isLocalName(fr.fn, m[1]) {
				if os.Getenv("VERIF_LOOPS") != "" {
					fmt.Fprintf(os.Stderr, "post clause skipped at %s: %v\n", pos, err)
				}
				continue
			}
			e.errs = append(e.errs, fmt.Sprintf("%s: %v", en.Line, err))
			continue
		}
		lbl := en.Label
		if lbl == "" {
			lbl = fmt.Sprint(i + 1)
		}
		e.oblige("post", lbl, fr.pc, t, pos, en.Src)
	}
	if e.spec.HasMod && e.checks["frame"] && !e.spec.ModAll {
		e.frameCheck(fr, env, pos)
	}
}

// frameCheck: every pre-existing location whose content differs from the entry state must
// be listed in modifies.
func (e *Exec) frameCheck(fr *Frame, env *SpecEnv, pos string) {
	allowed := map[string][]string{} // key -> refs
	for _, m := range e.spec.Modifies {
		oldEnv := env.child()
		oldEnv.st = e.entry
		keys, ref, err := oldEnv.locOf(m.E)
		if err != nil {
			e.errs = append(e.errs, fmt.Sprintf("%s: %v", m.Line, err))
			continue
		}
		for _, k := range keys {
			allowed[k] = append(allowed[k], ref)
		}
	}
	if fr.st.gen != e.entry.gen {
		e.oblige("frame", "unknown-effects", fr.pc, "false", pos, "a call with unknown effects (havoc) occurred; frame cannot be established")
		return
	}
	var keys []string
	for k := range fr.st.heap {
		keys = append(keys, k)
	}
	sort.Strings(keys)
	for _, k := range keys {
		if strings.HasPrefix(k, "X:") || strings.HasPrefix(k, "R:") {
			continue // ghost state is framed by the contracts that mention it
		}
		srt, known := e.keySort[k]
		if !known {
			continue // havocked but never read or written with a known shape: not observable here
		}
		cur := e.heapGet(fr.st, k, srt)
		old := e.heapGet(e.entry, k, srt)
		if cur == old {
			continue
		}
		if strings.HasPrefix(k, "X:") || strings.HasPrefix(k, "R:") {
			continue // ghost state is framed by the contracts that mention it
		}
		if strings.HasPrefix(k, "G:") {
			if _, ok := allowed[k]; ok {
				continue
			}
			e.oblige("frame", k, fr.pc, mkEq(cur, old), pos, "global variable written but not in modifies")
			continue
		}
		e.nf++
		r := sym(fmt.Sprintf("q_r!%d", e.nf))
		var ne []string
		anyRef := false
		for _, a := range allowed[k] {
			if a == "*" {
				anyRef = true
			}
			ne = append(ne, mkNot(mkEq(r, a)))
		}
		if anyRef {
			continue
		}
		idxSort, _ := splitArrSort(srt)
		guard := mkAnd(ne...)
		if idxSort == sRef {
			guard = mkAnd(app("<=", r, "alloc0"), guard)
		}
		body := mkImp(guard, mkEq(sel(cur, r), sel(old, r)))
		e.oblige("frame", k, fr.pc, "(forall (("+r+" "+idxSort+")) "+body+")", pos, "writes outside modifies to "+k)
	}
}

// locOf: heap keys and object ref denoted by a modifies clause.
func (env *SpecEnv) locOf(x *SExpr) (keys []string, ref string, err error) {
	e := env.e
	if T, ok := env.typeClause(x); ok {
		return e.keysOfType(T, false), "*", nil
	}
	if x.Op == "call" && x.Args[0].Op == "id" && x.Args[0].Tok == "ghost" && len(x.Args) == 2 {
		return []string{"X:" + x.Args[1].String()}, "*", nil
	}
	if x.Op == "call" && x.Args[0].Op == "id" && x.Args[0].Tok == "entries" && len(x.Args) == 2 {
		// all entries of one map
		m, err := env.eval(x.Args[1])
		if err != nil {
			return nil, "", err
		}
		if _, ok := m.T.Underlying().(*types.Map); !ok {
			return nil, "", fmt.Errorf("modifies %s: not a map", x)
		}
		return mapKeys(m.T), m.S, nil
	}
	switch x.Op {
	case "sel":
		if _, ok := e.L.specs.Ghosts[x.Tok]; ok {
			a, err := env.eval(x.Args[0])
			if err != nil {
				return nil, "", err
			}
			return []string{"X:" + x.Tok}, a.leaves()[0], nil
		}
		a, err := env.eval(x.Args[0])
		if err != nil {
			return nil, "", err
		}
		pt, ok := a.T.Underlying().(*types.Pointer)
		if !ok {
			return nil, "", fmt.Errorf("modifies %s: owner is not a pointer", x)
		}
		obj, path, _ := types.LookupFieldOrMethod(a.T, true, env.pkgFor(a.T), x.Tok)
		fv, ok := obj.(*types.Var)
		if !ok || len(path) != 1 {
			return nil, "", fmt.Errorf("modifies %s: no direct field", x)
		}
		if isAggregate(fv.Type()) {
			return e.keysOfType(fv.Type(), false), subRef(a.S, pt.Elem(), fv.Name()), nil
		}
		return e.keysOfStorage(pt.Elem(), fv.Name(), fv.Type()), a.S, nil
	case "idx", "slice":
		if x.Op == "slice" && (x.Args[1] != nil || x.Args[2] != nil) {
			return nil, "", fmt.Errorf("modifies %s: a bounded range is supported only in assumed contracts (the frame check works per backing array)", x)
		}
		a, err := env.eval(x.Args[0])
		if err != nil {
			return nil, "", err
		}
		if kindOf(a.T) != kSlice {
			return nil, "", fmt.Errorf("modifies %s: not a slice", x)
		}
		return e.keysOfType(a.T.Underlying().(*types.Slice).Elem(), true), a.sBase(), nil
	case "un":
		if x.Tok == "*" {
			if x.Args[0].Op == "id" {
				// *name for a captured or address-taken variable: its cell
				if c, ok := env.vars["&"+x.Args[0].Tok]; ok && c.A == nil {
					if pt, ok := c.T.Underlying().(*types.Pointer); ok {
						return e.keysOfType(pt.Elem(), false), c.S, nil
					}
				}
			}
			a, err := env.eval(x.Args[0])
			if err != nil {
				return nil, "", err
			}
			pt, ok := a.T.Underlying().(*types.Pointer)
			if !ok {
				return nil, "", fmt.Errorf("modifies %s", x)
			}
			return e.keysOfType(pt.Elem(), false), a.S, nil
		}
	case "id":
		if _, ok := e.L.specs.GhostVars[x.Tok]; ok {
			return []string{"X:" + x.Tok}, "", nil
		}
		// a package-level variable
		if env.pkg != nil {
			if v, ok := env.pkg.Scope().Lookup(x.Tok).(*types.Var); ok {
				var ks []string
				for k := range leafSorts(v.Type()) {
					ks = append(ks, fmt.Sprintf("G:%s.%s#%d", env.pkg.Path(), x.Tok, k))
				}
				return ks, "", nil
			}
		}
	}
	return nil, "", fmt.Errorf("unsupported modifies location %s", x)
}

// collectInputs records the terms whose model values describe a counterexample input.
func (e *Exec) collectInputs(fn *ssa.Function, args []Val, binds []Val) {
	add := func(name, term string) { e.inputs = append(e.inputs, ModelTerm{name, term}) }
	var walk func(name string, v Val, T types.Type, depth int)
	walk = func(name string, v Val, T types.Type, depth int) {
		switch u := T.Underlying().(type) {
		case *types.Slice:
			add(name+".base", v.sBase())
			add(name+".off", v.sOff())
			add(name+".len", v.sLen())
			add(name+".cap", v.sCap())
			if w, _, ok := intInfo(u.Elem()); ok {
				arr := e.heapGet(e.entry, elemKey(u.Elem(), 0), arrSort(sRef, arrSort(sBV64, bvSort(w))))
				for i := 0; i < replayBytes; i++ {
					add(fmt.Sprintf("%s[%d]", name, i), sel(sel(arr, v.sBase()), bvAdd(v.sOff(), bvLitI(64, int64(i)))))
				}
			}
		case *types.Struct:
			for i := 0; i < u.NumFields(); i++ {
				walk(name+"."+u.Field(i).Name(), v.F[i], u.Field(i).Type(), depth)
			}
		case *types.Pointer:
			add(name, v.S)
			if depth < 2 && v.S != "" {
				if st, ok := u.Elem().Underlying().(*types.Struct); ok {
					for i := 0; i < st.NumFields(); i++ {
						if isAggregate(st.Field(i).Type()) {
							continue
						}
						fv := e.loadField(e.entry, v.S, u.Elem(), i)
						walk(name+"->"+st.Field(i).Name(), fv, st.Field(i).Type(), depth+1)
					}
				}
			}
		case *types.Basic:
			if v.S != "" {
				if scalarSort(T) == sStr {
					add(name+".slen", app("slen", v.S))
					for i := 0; i < 16; i++ {
						add(fmt.Sprintf("%s[%d]", name, i), app("sat", v.S, bvLitI(64, int64(i))))
					}
				} else {
					add(name, v.S)
				}
			}
		case *types.Interface:
			add(name+".itype", app("itype", v.S))
		default:
			if v.S != "" {
				add(name, v.S)
			}
		}
	}
	for i, p := range fn.Params {
		walk(p.Name(), args[i], p.Type(), 0)
	}
	for i, fv := range fn.FreeVars {
		walk("&"+fv.Name(), binds[i], fv.Type(), 0)
	}
}

const replayBytes = 48

// recoverFrame: the structural recover-frame rule (DESIGN §3.5). fn is no-escape when the
// first thing it does is to register a deferred closure R whose first call is recover(); only
// instructions that cannot panic may precede the registration. R itself must be under a
// no-panic contract (checked here: a contract with the safety kinds exists for R).
func (e *Exec) recoverFrame(fn *ssa.Function) {
	ok := false
	why := "no deferred recover closure is registered in the entry block"
	var R *ssa.Function
	pos := e.posOf(fn.Pos())
scan:
	for _, in := range fn.Blocks[0].Instrs {
		switch x := in.(type) {
		case *ssa.Alloc, *ssa.MakeClosure, *ssa.DebugRef:
		case *ssa.Store:
			if _, isAlloc := x.Addr.(*ssa.Alloc); !isAlloc {
				why = "an instruction that may panic precedes the registration of the recover closure: " + in.String()
				break scan
			}
		case *ssa.UnOp:
			switch x.X.(type) {
			case *ssa.FreeVar, *ssa.Alloc:
			default:
				why = "an instruction that may panic precedes the registration of the recover closure: " + in.String()
				break scan
			}
		case *ssa.Defer:
			if mc, isClo := x.Call.Value.(*ssa.MakeClosure); isClo {
				R = mc.Fn.(*ssa.Function)
			} else if f, isFn := x.Call.Value.(*ssa.Function); isFn {
				R = f
			}
			if R == nil || !callsRecoverFirst(R) {
				why = "the first deferred call does not call recover() before anything else"
				break scan
			}
			ok = true
			break scan
		default:
			why = "an instruction that may panic precedes the registration of the recover closure: " + in.String()
			break scan
		}
	}
	goal := "false"
	if ok {
		goal = "true"
		why = "first defer recovers"
	}
	e.oblige("recover-frame", "first-defer-recovers", "true", goal, pos, why)
	if ok {
		sp := e.L.specFor(R)
		g2 := "false"
		d2 := "the recover closure " + e.L.funcKeyShort(R) + " has no no-panic contract"
		if sp != nil && !sp.Assumed && sp.Checks["bounds"] && sp.Checks["nil"] && sp.Checks["assert"] && sp.Checks["panic"] {
			g2 = "true"
			d2 = "the recover closure is under a no-panic contract"
		}
		e.oblige("recover-frame", "recover-closure-nopanic", "true", g2, pos, d2)
	}
}

func callsRecoverFirst(R *ssa.Function) bool {
	if len(R.Blocks) == 0 {
		return false
	}
	for _, in := range R.Blocks[0].Instrs {
		if c, ok := in.(*ssa.Call); ok {
			if b, isB := c.Call.Value.(*ssa.Builtin); isB && b.Name() == "recover" {
				return true
			}
			return false
		}
		switch in.(type) {
		case *ssa.Alloc, *ssa.DebugRef, *ssa.UnOp, *ssa.Store, *ssa.MakeClosure:
		default:
			return false
		}
	}
	return false
}
