#!/usr/bin/env python3
"""Regenerates the two generated tables of DESIGN.md section 9 (between the BEGIN/END markers):
   9.1 status (from evidence/*.json and known_findings.json) and 9.5 seeded changes (from seeded/*/)."""
import json, glob, os, re
V='/verif'
ev={}
for f in sorted(glob.glob(V+'/evidence/*.json')):
    d=json.load(open(f)); ev[d['property_id']]=d
kf=json.load(open(V+'/known_findings.json'))['findings']
fixed={}
for k in kf:
    if k['status']=='fixed': fixed[k['property']]=fixed.get(k['property'],0)+1
texts=json.load(open(V+'/tools/manifest_texts.json'))['checks']
rows=['| id | functions under contract | obligations discharged (+ reachability covers) | tier of the last run | defects repaired |','|---|---|---|---|---|']
for pid in sorted(ev):
    c=ev[pid]['coverage']
    rows.append('| %s | %d | %s of %s (+%s) | %s | %s |'%(pid,len(c['functions_under_contract']),c['discharged'],c['obligations'],c['covers'] if isinstance(c['covers'],int) else '%d, %d reachable'%(c['covers'].get('generated',0),c['covers'].get('reachable_or_inconclusive',0)),ev[pid].get('tier','?'),fixed.get(pid,'–')))
status='\n'.join(rows)
rows=['| seeded change (/verif/seeded/…) | obligations that fail with it | note |','|---|---|---|']
for d in sorted(glob.glob(V+'/seeded/*/')):
    name=os.path.basename(d.rstrip('/'))
    caught=[]
    if os.path.exists(d+'caught.txt'):
        caught=[l.strip() for l in open(d+'caught.txt') if l.strip()]
    note=''
    try:
        m=json.load(open(d+'meta.json')); note=m.get('harness_note','')
    except Exception: pass
    short=[]
    for c in caught:
        c=re.sub(r'^[a-z0-9]+\._?','',c)
        short.append('`'+c+'`')
    if len(short)>3: short=short[:3]+['… (%d)'%len(caught)]
    rows.append('| %s | %s | %s |'%(name, ', '.join(short) if short else '(not run yet)', note.replace('|','/')[:260]))
seeds='\n'.join(rows)
p=V+'/DESIGN.md'
s=open(p).read()
def put(s,tag,body):
    b='<!-- BEGIN %s -->'%tag; e='<!-- END %s -->'%tag
    i=s.index(b)+len(b); j=s.index(e)
    return s[:i]+'\n'+body+'\n'+s[j:]
s=put(s,'STATUS',status); s=put(s,'SEEDS',seeds)
open(p,'w').write(s)
print('tables regenerated:',len(ev),'properties,',len(glob.glob(V+'/seeded/*/')),'seeds')
