package ipp

// Hand replay for the loop-variant obligations of the IPP decoder (properties C17/C01):
//  - ipp.(*valBool).decode/variant/loop1: the "additional values" loop ran while the next tag DIFFERS from
//    the attribute's tag; at the end of the input every read returns 0, so it appended values forever
//    (unbounded memory growth from one small request). Also the value length was read as one byte, so
//    decode(encode([false])) gave [true].
//  - ipp.(*ippMsg).decode/variant/loop1: a request that ends without the end-of-attributes tag made the
//    group loop spin on the last byte, appending an empty group per round, forever.
// Each case runs in a child process with a 4 GiB address-space limit and a 5 s deadline, because the
// failure is non-termination with allocation.

import (
	"bytes"
	"os"
	"os/exec"
	"syscall"
	"testing"
	"time"

	"github.com/honeytrap/honeytrap/services/decoder"
)

func runChild(t *testing.T, which string) {
	cmd := exec.Command(os.Args[0], "-test.run", "TestHandIPPDecodeLoopsChild")
	cmd.Env = append(os.Environ(), "C17_CHILD="+which)
	var out bytes.Buffer
	cmd.Stdout, cmd.Stderr = &out, &out
	if err := cmd.Start(); err != nil {
		t.Fatal(err)
	}
	done := make(chan error, 1)
	go func() { done <- cmd.Wait() }()
	select {
	case err := <-done:
		if err != nil {
			s := out.String()
			if len(s) > 300 {
				s = s[:300]
			}
			t.Errorf("%s: child failed: %v\n%s", which, err, s)
		}
	case <-time.After(5 * time.Second):
		cmd.Process.Kill()
		t.Errorf("%s: decoding did not return within 5 s (killed)", which)
	}
}

func TestHandIPPDecodeLoops(t *testing.T) {
	runChild(t, "bool")
	runChild(t, "truncated")
}

func TestHandIPPDecodeLoopsChild(t *testing.T) {
	which := os.Getenv("C17_CHILD")
	if which == "" {
		return
	}
	lim := syscall.Rlimit{Cur: 4 << 30, Max: 4 << 30}
	syscall.Setrlimit(syscall.RLIMIT_AS, &lim)
	switch which {
	case "bool":
		enc := decoder.NewEncoder()
		in := &valBool{tag: valBoolean, name: "x", val: []bool{false}}
		in.encode(enc)
		raw := enc.Bytes()
		out := &valBool{tag: valBoolean}
		out.decode(decoder.NewDecoder(raw[1:])) // the group decoder has consumed the tag byte
		if len(out.val) != 1 || out.val[0] != false || out.name != "x" {
			t.Fatalf("decode(encode(x=[false])) = %q %v", out.name, out.val)
		}
	case "truncated":
		// version 2.0, operation 0x000b, request id 1, operation-attributes tag, then the end of input
		raw := []byte{2, 0, 0, 0x0b, 0, 0, 0, 1, 1}
		m := &ippMsg{}
		if err := m.decode(raw); err == nil {
			t.Fatalf("a request without end-of-attributes tag decoded without error (%d groups)", len(m.attributes))
		}
	}
}
