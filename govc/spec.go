package main

import (
	"bufio"
	"fmt"
	"os"
	"path/filepath"
	"regexp"
	"sort"
	"strconv"
	"strings"
)

// ---- contract files ----

type Clause struct {
	Label string
	Src   string
	E     *SExpr
	Line  string // file:line
}

type LoopSpec struct {
	Ord           int
	Invariants    []Clause
	Decreases     *Clause
	DecreasesMore []Clause // further components of a lexicographic measure
	Unroll        int
}

type FuncSpec struct {
	Key       string // "<pkgpath>.<relname>"
	Pkg       string
	Name      string
	Requires  []Clause
	Decreases *Clause             // termination measure for (self-)recursive functions
	Options   map[string]bool     // engine options for this function (e.g. absidx)
	CallsEach string              // higher-order clause: slice(args...) — calls every element in order
	CallPre   map[string][]Clause // extra obligations at the call sites of a callee inside this function
	OnSend    []Clause            // obligations at every channel send inside this function (ch, val bound)
	OnSendAdd map[string]Clause   // ghost counter updates at every channel send: ghost var += expr(ch, val)
	Physical  []Clause            // free preconditions: assumed on both sides (event counters below 2^49, stored objects exist)
	Ensures   []Clause
	Modifies  []Clause
	ModAll    bool
	HasMod    bool
	Checks    map[string]bool
	Loops     map[int]*LoopSpec
	Pure      bool // assumed: no visible heap effect
	Assumed   bool // contract comes from /verif/contracts/assumed (never verified)
	NonNil    bool // result (pointer/interface) is non-nil
	NoInline  bool
	Inline    bool
	NoReturn  bool              // calling it never returns (log.Fatal, os.Exit): treated as panic
	NoEscape  bool              // structural: recover-frame rule
	CallCount map[string]string // callee short name -> ghost variable counting its calls from this function
	Preserves []string          // ghost names that survive this contract's "modifies *"
	// AssumeResult: callee short name -> conditions on its result assumed at this function's call sites
	AssumeResult map[string][]Clause
	FuncType     bool // contract of a function type (applies to dynamic calls)
	Trusted      bool // repository function whose contract is used but not verified (listed as assumption)
	Nopanic      bool // shorthand for all safety checks
	File         string
	Used         bool
}

type SpecFn struct {
	Name   string
	Pkg    string
	Params []QVar
	Ret    string
	Body   *SExpr
	Src    string
}

// FoldDecl: a list-valued recursive spec function over a slice, given by its step.
type FoldDecl struct {
	Name, Pkg string
	Params    []QVar // first parameter is the slice
	Acc, Elem string
	Step      *SExpr
}

type GhostField struct {
	Pkg, Owner, Name, Type string
}

type Specs struct {
	Funcs      map[string]*FuncSpec
	SpecFns    map[string]*SpecFn // key pkgpath + "." + name, also bare name for assumed
	Ghosts     map[string]*GhostField
	Nullable   map[string]bool // "pkgpath.Type.field"
	UFs        map[string]*UFDecl
	Axioms     map[string][]Clause // closed facts about an uninterpreted function, assumed where it is used
	Implements map[string]string   // interface type (as written) -> its only implementation (assumption)
	GhostVars  map[string]string   // global ghost variables: name -> type
	Folds      map[string]*FoldDecl
	Files      []string
}

func newSpecs() *Specs {
	return &Specs{Funcs: map[string]*FuncSpec{}, SpecFns: map[string]*SpecFn{}, Ghosts: map[string]*GhostField{}, Nullable: map[string]bool{}, UFs: map[string]*UFDecl{}, GhostVars: map[string]string{}, Folds: map[string]*FoldDecl{}}
}

var allSafetyKinds = []string{"bounds", "nil", "assert", "div0", "shift", "makelen", "panic", "mapnil"}

var reDirective = regexp.MustCompile(`^//\s?@\s?(.*)$`)

// loadSpecFile parses one contract file. pkgPath is the import path the file belongs to
// ("" for assumed-contract files, whose keys are fully qualified).
func (s *Specs) loadSpecFile(path, pkgPath string, assumed bool) error {
	f, err := os.Open(path)
	if err != nil {
		return err
	}
	defer f.Close()
	s.Files = append(s.Files, path)
	sc := bufio.NewScanner(f)
	sc.Buffer(make([]byte, 1<<20), 1<<20)
	var cur *FuncSpec
	lineNo := 0
	type pending struct {
		text string
		line int
	}
	var dirs []pending
	for sc.Scan() {
		lineNo++
		line := strings.TrimSpace(sc.Text())
		var body string
		if assumed {
			if line == "" || strings.HasPrefix(line, "#") {
				continue
			}
			body = line
			if m := reDirective.FindStringSubmatch(line); m != nil {
				body = m[1]
			}
		} else {
			m := reDirective.FindStringSubmatch(line)
			if m == nil {
				continue
			}
			body = m[1]
		}
		body = strings.TrimSpace(body)
		if body == "" {
			continue
		}
		if strings.HasPrefix(body, "|") && len(dirs) > 0 { // continuation
			dirs[len(dirs)-1].text += " " + strings.TrimSpace(body[1:])
			continue
		}
		dirs = append(dirs, pending{body, lineNo})
	}
	for _, d := range dirs {
		where := fmt.Sprintf("%s:%d", path, d.line)
		word, rest := splitWord(d.text)
		switch word {
		case "spec":
			sf, err := parseSpecFn(rest)
			if err != nil {
				return fmt.Errorf("%s: %v", where, err)
			}
			sf.Pkg = pkgPath
			s.SpecFns[pkgPath+"."+sf.Name] = sf
			cur = nil
		case "fold":
			// fold name(a []T, p1 T1, ...) :: step(acc, x) = expr
			i := strings.Index(rest, "::")
			if i < 0 {
				return fmt.Errorf("%s: fold name(params) :: step(acc, x) = expr", where)
			}
			head := strings.TrimSpace(rest[:i])
			tail := strings.TrimSpace(rest[i+2:])
			lp, rp := strings.Index(head, "("), strings.LastIndex(head, ")")
			eq := findDefEq(tail)
			if lp < 0 || rp < lp || eq < 0 {
				return fmt.Errorf("%s: bad fold declaration", where)
			}
			fd := &FoldDecl{Name: strings.TrimSpace(head[:lp]), Pkg: pkgPath}
			for _, pp := range splitTop(head[lp+1:rp], ',') {
				n, t := splitWord(strings.TrimSpace(pp))
				fd.Params = append(fd.Params, QVar{n, t})
			}
			sh := strings.TrimSpace(tail[:eq])
			slp, srp := strings.Index(sh, "("), strings.LastIndex(sh, ")")
			names := splitTop(sh[slp+1:srp], ',')
			if len(names) != 2 {
				return fmt.Errorf("%s: step(acc, x) expected", where)
			}
			fd.Acc, fd.Elem = strings.TrimSpace(names[0]), strings.TrimSpace(names[1])
			body, err := parseSpecExpr(strings.TrimSpace(tail[eq+1:]))
			if err != nil {
				return fmt.Errorf("%s: %v", where, err)
			}
			fd.Step = body
			s.Folds[fd.Name] = fd
			cur = nil
		case "ghost":
			// ghost field Owner.name type
			w2, r2 := splitWord(rest)
			if w2 == "var" {
				nm, ty := splitWord(r2)
				s.GhostVars[nm] = strings.TrimSpace(ty)
				cur = nil
				continue
			}
			if w2 != "field" {
				return fmt.Errorf("%s: ghost field expected", where)
			}
			nm, ty := splitWord(r2)
			i := strings.LastIndex(nm, ".")
			if i < 0 {
				return fmt.Errorf("%s: ghost field Owner.name", where)
			}
			g := &GhostField{Pkg: pkgPath, Owner: nm[:i], Name: nm[i+1:], Type: strings.TrimSpace(ty)}
			s.Ghosts[g.Name] = g
			cur = nil
		case "uf":
			// uf name(T1, T2) RT
			lp := strings.Index(rest, "(")
			rp := strings.LastIndex(rest, ")")
			if lp < 0 || rp < lp {
				return fmt.Errorf("%s: uf name(T,...) RT", where)
			}
			u := &UFDecl{Name: strings.TrimSpace(rest[:lp]), Ret: strings.TrimSpace(rest[rp+1:]), Len: -1}
			if fs := strings.Fields(u.Ret); len(fs) > 1 {
				u.Ret = fs[0]
				switch {
				case fs[1] == "range" && len(fs) == 4:
					u.HasRange = true
					u.Lo, _ = strconv.ParseInt(fs[2], 0, 64)
					u.Hi, _ = strconv.ParseInt(fs[3], 0, 64)
				case fs[1] == "len" && len(fs) == 3:
					u.Len, _ = strconv.ParseInt(fs[2], 0, 64)
				default:
					return fmt.Errorf("%s: uf attributes: range lo hi | len n", where)
				}
			}
			for _, p := range splitTop(rest[lp+1:rp], ',') {
				if p = strings.TrimSpace(p); p != "" {
					u.Params = append(u.Params, p)
				}
			}
			s.UFs[u.Name] = u
			cur = nil
		case "implements":
			// implements <iface type> <concrete type>: every non-nil value of the interface type has this
			// dynamic type (ASSUMPTION: the only implementation in the program); interface calls then use the
			// concrete method's contract
			fs := strings.Fields(rest)
			if len(fs) != 2 {
				return fmt.Errorf("%s: implements <interface> <type>", where)
			}
			if s.Implements == nil {
				s.Implements = map[string]string{}
			}
			s.Implements[fs[0]] = fs[1]
			cur = nil
		case "axiom":
			// axiom <uf name>: <closed expr> -- assumed wherever that uninterpreted function is used
			i := strings.Index(rest, ": ")
			if i < 0 {
				return fmt.Errorf("%s: axiom <uf>: <expr>", where)
			}
			c, err := mkClause(rest[i+2:], where)
			if err != nil {
				return err
			}
			nm := strings.TrimSpace(rest[:i])
			if s.Axioms == nil {
				s.Axioms = map[string][]Clause{}
			}
			s.Axioms[nm] = append(s.Axioms[nm], c)
			cur = nil
		case "nullable":
			for _, n := range strings.Split(rest, ",") {
				n = strings.TrimSpace(n)
				if n != "" {
					s.Nullable[pkgPath+"."+n] = true
				}
			}
		case "functype":
			// contract for calls through function values of this (named or literal) type
			name := strings.TrimSpace(rest)
			key := "functype:" + name
			if pkgPath != "" && !strings.HasPrefix(name, "func(") {
				key = "functype:" + pkgPath + "." + name
			}
			cur = &FuncSpec{Key: key, Pkg: pkgPath, Name: name, Checks: map[string]bool{}, Loops: map[int]*LoopSpec{}, Assumed: true, File: where, FuncType: true}
			s.Funcs[key] = cur
		case "func":
			name := strings.TrimSpace(rest)
			key := name
			p := pkgPath
			if pkgPath != "" {
				key = pkgPath + "." + name
			} else {
				p = ""
			}
			cur = &FuncSpec{Key: key, Pkg: p, Name: name, Checks: map[string]bool{}, Loops: map[int]*LoopSpec{}, Assumed: assumed, File: where}
			if old, dup := s.Funcs[key]; dup {
				return fmt.Errorf("%s: duplicate contract for %s (first at %s)", where, key, old.File)
			}
			s.Funcs[key] = cur
		default:
			if cur == nil {
				return fmt.Errorf("%s: directive %q outside a func block", where, word)
			}
			if err := cur.addDirective(word, rest, where); err != nil {
				return fmt.Errorf("%s: %v", where, err)
			}
		}
	}
	return nil
}

func splitWord(s string) (string, string) {
	s = strings.TrimSpace(s)
	i := strings.IndexAny(s, " \t")
	if i < 0 {
		return s, ""
	}
	return s[:i], strings.TrimSpace(s[i+1:])
}

var reLabel = regexp.MustCompile(`^\[([A-Za-z0-9_.\-]+)\]\s*(.*)$`)

func mkClause(src, where string) (Clause, error) {
	c := Clause{Line: where}
	if m := reLabel.FindStringSubmatch(src); m != nil {
		c.Label = m[1]
		src = m[2]
	}
	e, err := parseSpecExpr(src)
	if err != nil {
		return c, err
	}
	c.Src = src
	c.E = e
	return c, nil
}

func (fs *FuncSpec) addDirective(word, rest, where string) error {
	switch word {
	case "requires":
		c, err := mkClause(rest, where)
		if err != nil {
			return err
		}
		fs.Requires = append(fs.Requires, c)
	case "option":
		if fs.Options == nil {
			fs.Options = map[string]bool{}
		}
		for _, o := range strings.Split(rest, ",") {
			if o = strings.TrimSpace(o); o != "" {
				fs.Options[o] = true
			}
		}
	case "decreases":
		c, err := mkClause(rest, where)
		if err != nil {
			return err
		}
		fs.Decreases = &c
	case "callseach":
		fs.CallsEach = strings.TrimSpace(rest)
	case "callpre":
		// callpre <callee short name>: expr
		i := strings.Index(rest, ": ")
		if i < 0 {
			return fmt.Errorf("callpre <callee>: <expr>")
		}
		c, err := mkClause(strings.TrimSpace(rest[i+2:]), where)
		if err != nil {
			return err
		}
		if fs.CallPre == nil {
			fs.CallPre = map[string][]Clause{}
		}
		name := strings.TrimSpace(rest[:i])
		fs.CallPre[name] = append(fs.CallPre[name], c)
	case "callcount":
		// callcount <callee short name>: <ghost var> — the ghost variable counts the calls of that callee made
		// by this function (a definitional ghost, bumped by the engine after each such call returns)
		i := strings.Index(rest, ": ")
		if i < 0 {
			return fmt.Errorf("callcount <callee>: <ghost var>")
		}
		if fs.CallCount == nil {
			fs.CallCount = map[string]string{}
		}
		fs.CallCount[strings.TrimSpace(rest[:i])] = strings.TrimSpace(rest[i+2:])
	case "assume-result":
		// assume-result <callee short name>: expr over the callee's parameters and result —
		// the contract is stated for the executions in which this call ends like that
		// (e.g. start-up code under "the data directory could be opened"); listed as an assumption
		i := strings.Index(rest, ": ")
		if i < 0 {
			return fmt.Errorf("assume-result <callee>: <expr>")
		}
		c, err := mkClause(strings.TrimSpace(rest[i+2:]), where)
		if err != nil {
			return err
		}
		if fs.AssumeResult == nil {
			fs.AssumeResult = map[string][]Clause{}
		}
		name := strings.TrimSpace(rest[:i])
		fs.AssumeResult[name] = append(fs.AssumeResult[name], c)
	case "onsend-add":
		// onsend-add <ghost var>: <int expr over ch and val>
		i := strings.Index(rest, ": ")
		if i < 0 {
			return fmt.Errorf("onsend-add <ghost var>: <expr>")
		}
		c, err := mkClause(strings.TrimSpace(rest[i+2:]), where)
		if err != nil {
			return err
		}
		if fs.OnSendAdd == nil {
			fs.OnSendAdd = map[string]Clause{}
		}
		fs.OnSendAdd[strings.TrimSpace(rest[:i])] = c
	case "onsend":
		// onsend: <expr over ch (the channel) and val (the value sent, before boxing)>
		c, err := mkClause(strings.TrimSpace(strings.TrimPrefix(strings.TrimSpace(rest), ":")), where)
		if err != nil {
			return err
		}
		fs.OnSend = append(fs.OnSend, c)
	case "physical":
		c, err := mkClause(rest, where)
		if err != nil {
			return err
		}
		fs.Physical = append(fs.Physical, c)
	case "ensures":
		c, err := mkClause(rest, where)
		if err != nil {
			return err
		}
		fs.Ensures = append(fs.Ensures, c)
	case "modifies":
		fs.HasMod = true
		for _, part := range splitTop(rest, ',') {
			part = strings.TrimSpace(part)
			if part == "" || part == "nothing" {
				continue
			}
			if part == "*" {
				fs.ModAll = true
				continue
			}
			c, err := mkClause(part, where)
			if err != nil {
				return err
			}
			fs.Modifies = append(fs.Modifies, c)
		}
	case "preserves":
		// preserves g1, g2: ghost fields / ghost variables that a "modifies *" of this contract leaves alone
		for _, part := range strings.Split(rest, ",") {
			if part = strings.TrimSpace(part); part != "" {
				fs.Preserves = append(fs.Preserves, part)
			}
		}
	case "check":
		for _, k := range strings.Split(rest, ",") {
			k = strings.TrimSpace(k)
			if k == "safety" {
				for _, s := range allSafetyKinds {
					fs.Checks[s] = true
				}
			} else if k != "" {
				fs.Checks[k] = true
			}
		}
	case "nopanic":
		fs.Nopanic = true
		for _, s := range allSafetyKinds {
			fs.Checks[s] = true
		}
	case "pure":
		fs.Pure = true
	case "nonnil":
		fs.NonNil = true
	case "noinline":
		fs.NoInline = true
	case "inline":
		fs.Inline = true
	case "noreturn":
		fs.NoReturn = true
	case "noescape":
		fs.NoEscape = true
	case "trusted":
		fs.Trusted = true
	case "ints":
		// only bv is implemented; recorded for the evidence
	case "loop":
		// loop N: invariant e | decreases e | unroll K
		i := strings.Index(rest, ":")
		if i < 0 {
			return fmt.Errorf("loop N: ...")
		}
		n, err := strconv.Atoi(strings.TrimSpace(rest[:i]))
		if err != nil {
			return err
		}
		ls := fs.Loops[n]
		if ls == nil {
			ls = &LoopSpec{Ord: n}
			fs.Loops[n] = ls
		}
		w, r := splitWord(rest[i+1:])
		switch w {
		case "invariant":
			c, err := mkClause(r, where)
			if err != nil {
				return err
			}
			ls.Invariants = append(ls.Invariants, c)
		case "decreases":
			// decreases e1; e2; ...: lexicographic tuple (each component bounded below by 0)
			parts := splitTop(r, ';')
			c, err := mkClause(strings.TrimSpace(parts[0]), where)
			if err != nil {
				return err
			}
			c.Src = r
			ls.Decreases = &c
			ls.DecreasesMore = nil
			for _, pt := range parts[1:] {
				cc, err := mkClause(strings.TrimSpace(pt), where)
				if err != nil {
					return err
				}
				ls.DecreasesMore = append(ls.DecreasesMore, cc)
			}
		case "unroll":
			k, err := strconv.Atoi(r)
			if err != nil {
				return err
			}
			ls.Unroll = k
		default:
			return fmt.Errorf("unknown loop directive %q", w)
		}
	default:
		return fmt.Errorf("unknown directive %q", word)
	}
	return nil
}

func splitTop(s string, sep byte) []string {
	var out []string
	depth := 0
	last := 0
	for i := 0; i < len(s); i++ {
		switch s[i] {
		case '(', '[':
			depth++
		case ')', ']':
			depth--
		default:
			if s[i] == sep && depth == 0 {
				out = append(out, s[last:i])
				last = i + 1
			}
		}
	}
	out = append(out, s[last:])
	return out
}

var reSpecFn = regexp.MustCompile(`^([A-Za-z_][A-Za-z0-9_]*)\((.*?)\)\s*([^=]*?)\s*=\s*(.*)$`)

func parseSpecFn(src string) (*SpecFn, error) {
	// name(p T, q U) RT = expr ; first '=' that is not part of ==, <=, >=, != separates
	i := findDefEq(src)
	if i < 0 {
		return nil, fmt.Errorf("spec: '=' expected in %q", src)
	}
	head := strings.TrimSpace(src[:i])
	body := strings.TrimSpace(src[i+1:])
	lp := strings.Index(head, "(")
	rp := strings.LastIndex(head, ")")
	if lp < 0 || rp < lp {
		return nil, fmt.Errorf("spec: bad header %q", head)
	}
	sf := &SpecFn{Name: strings.TrimSpace(head[:lp]), Ret: strings.TrimSpace(head[rp+1:]), Src: body}
	for _, p := range splitTop(head[lp+1:rp], ',') {
		p = strings.TrimSpace(p)
		if p == "" {
			continue
		}
		n, t := splitWord(p)
		sf.Params = append(sf.Params, QVar{n, t})
	}
	e, err := parseSpecExpr(body)
	if err != nil {
		return nil, err
	}
	sf.Body = e
	return sf, nil
}

func findDefEq(s string) int {
	depth := 0
	for i := 0; i < len(s); i++ {
		switch s[i] {
		case '(':
			depth++
		case ')':
			depth--
		case '=':
			if depth == 0 {
				prev := byte(' ')
				if i > 0 {
					prev = s[i-1]
				}
				next := byte(' ')
				if i+1 < len(s) {
					next = s[i+1]
				}
				if prev != '=' && prev != '!' && prev != '<' && prev != '>' && next != '=' {
					return i
				}
			}
		}
	}
	return -1
}

// loadRepoSpecs finds contracts_verif.go files in the given package directories.
func (s *Specs) loadRepoSpecs(pkgDirs map[string]string) error {
	var paths []string
	for p := range pkgDirs {
		paths = append(paths, p)
	}
	sort.Strings(paths)
	for _, p := range paths {
		matches, _ := filepath.Glob(filepath.Join(pkgDirs[p], "*_verif.go"))
		sort.Strings(matches)
		for _, m := range matches {
			if err := s.loadSpecFile(m, p, false); err != nil {
				return err
			}
		}
	}
	return nil
}

func (s *Specs) loadAssumed(dir string) error {
	matches, _ := filepath.Glob(filepath.Join(dir, "*.spec"))
	sort.Strings(matches)
	for _, m := range matches {
		if err := s.loadSpecFile(m, "", true); err != nil {
			return err
		}
	}
	return nil
}

// claimsTermination: the contract carries a measure on the function or on one of its loops.
func (fs *FuncSpec) claimsTermination() bool {
	if fs.Decreases != nil {
		return true
	}
	for _, l := range fs.Loops {
		if l.Decreases != nil {
			return true
		}
	}
	return false
}
