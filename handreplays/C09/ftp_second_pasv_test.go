package ftp

// Hand replay for ftp.(commandPasv).Execute (property C09): every PASV/EPSV/PORT/EPRT stored the new data
// socket over the session's current one without closing it. A client that sends PASV several times left
// all but the last listener (a descriptor and an acceptor goroutine each) open for the life of the
// process: Conn.Close releases only the socket the session holds at its end.

import (
	"bufio"
	"bytes"
	"fmt"
	"net"
	"runtime"
	"testing"
	"time"
)

type handNopConn struct{ net.Conn }

func (handNopConn) LocalAddr() net.Addr { return &net.TCPAddr{IP: net.IPv4(127, 0, 0, 1), Port: 21} }
func (handNopConn) Close() error        { return nil }

func TestHandFTPSecondPasvReleasesFirst(t *testing.T) {
	before := runtime.NumGoroutine()

	var out bytes.Buffer
	c := &Conn{
		conn:          handNopConn{},
		controlWriter: bufio.NewWriter(&out),
		server:        &Server{ServerOpts: &ServerOpts{}},
		sessionid:     "sess",
	}

	var ports []int
	for i := 0; i < 4; i++ {
		commandPasv{}.Execute(c, "")
		ps, ok := c.dataConn.(*ftpPassiveSocket)
		if !ok {
			t.Fatalf("PASV %d: no passive socket (%q)", i+1, out.String())
		}
		ports = append(ports, ps.Port())
	}
	c.Close() // end of the session

	time.Sleep(200 * time.Millisecond)
	for i, p := range ports {
		l, err := net.Listen("tcp", fmt.Sprintf("127.0.0.1:%d", p))
		if err != nil {
			t.Errorf("the listener of PASV %d (port %d) is still open after the session ended: %v", i+1, p, err)
			continue
		}
		l.Close()
	}
	if after := runtime.NumGoroutine(); after > before {
		t.Errorf("%d goroutines before the session, %d after it (four PASV commands)", before, after)
	}
}
