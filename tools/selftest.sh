#!/bin/bash
# must-fail corpus: every entry of selftest/corpus.tsv and every seeded change under seeded/ is applied
# to a scratch copy of /repo (outside /repo and /verif, removed afterwards); the property's check must
# report a VIOLATION on it. Usage: selftest.sh [PROP-filter]
export GOFLAGS=-mod=mod GOPROXY=off GOSUMDB=off GOTOOLCHAIN=local
cd /verif
filter="${1:-}"
fail=0; n=0
run_one() { # prop name scratchdir
  out=$(./bin/govc check -no-evidence -repo "$3" -tier quick "$1" 2>&1)
  if echo "$out" | grep -q "^VIOLATION property=$1 "; then echo "caught   $1 $2: $(echo "$out" | grep -c '^VIOLATION') obligation(s) fail"; else echo "MISSED   $1 $2: $(echo "$out" | tail -1 | cut -c1-120)"; fail=1; fi
}
while IFS=$'\t' read -r prop name file expr; do
  case "$prop" in \#*|"") continue;; esac
  [ -n "$filter" ] && [ "$prop" != "$filter" ] && continue
  D=$(mktemp -d /tmp/selftest.XXXXXX); cp -r /repo/. "$D/"
  before=$(md5sum "$D/$file"); sed -i "$expr" "$D/$file"; after=$(md5sum "$D/$file")
  if [ "$before" = "$after" ]; then echo "STALE    $prop $name: the sed expression no longer changes $file"; fail=1; rm -rf "$D"; continue; fi
  if ! (cd "$D" && go build ./$(dirname $file)/ 2>/dev/null); then echo "NOBUILD  $prop $name"; fail=1; rm -rf "$D"; continue; fi
  run_one "$prop" "$name" "$D"; n=$((n+1)); rm -rf "$D"
done < selftest/corpus.tsv
for d in seeded/*/; do
  [ -f "$d/patch.diff" ] || continue
  prop=$(basename "$d" | cut -d- -f1); name=$(basename "$d")
  [ -n "$filter" ] && [ "$prop" != "$filter" ] && continue
  if grep -q '"expect": "missed"' "$d/meta.json" 2>/dev/null; then echo "skipped  $prop $name: documented miss (outside the decided part)"; continue; fi
  D=$(mktemp -d /tmp/selftest.XXXXXX); cp -r /repo/. "$D/"
  if ! (cd "$D" && patch -p1 -s < "/verif/$d/patch.diff" >/dev/null 2>&1); then echo "STALE    $prop $name: patch does not apply"; fail=1; rm -rf "$D"; continue; fi
  run_one "$prop" "$name" "$D"; n=$((n+1)); rm -rf "$D"
done
echo "selftest: $n changes tried, fail=$fail"
exit $fail
