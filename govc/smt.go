package main

import (
	"fmt"
	"math/big"
	"strings"
)

// ---- SMT-LIB term helpers. Terms are plain strings (S-expressions). ----

const (
	sBool  = "Bool"
	sRef   = "Int"
	sStr   = "Str"
	sIface = "Iface"
	sF64   = "F64"
)

func bvSort(w int) string { return fmt.Sprintf("(_ BitVec %d)", w) }

func arrSort(idx, el string) string { return "(Array " + idx + " " + el + ")" }

var sBV64 = bvSort(64)

func bvLit(w int, v *big.Int) string {
	m := new(big.Int).Lsh(big.NewInt(1), uint(w))
	x := new(big.Int).Mod(v, m)
	if w%4 == 0 {
		return fmt.Sprintf("#x%0*s", w/4, x.Text(16))
	}
	return fmt.Sprintf("#b%0*s", w, x.Text(2))
}

func bvLitI(w int, v int64) string { return bvLit(w, big.NewInt(v)) }

func sym(name string) string {
	simple := true
	for _, c := range name {
		if !(c >= 'a' && c <= 'z' || c >= 'A' && c <= 'Z' || c >= '0' && c <= '9' || c == '_' || c == '.' || c == '$' || c == '!') {
			simple = false
			break
		}
	}
	if simple && name != "" && !(name[0] >= '0' && name[0] <= '9') {
		return name
	}
	return "|" + strings.ReplaceAll(strings.ReplaceAll(name, "|", "!"), "\\", "!") + "|"
}

func app(op string, args ...string) string {
	return "(" + op + " " + strings.Join(args, " ") + ")"
}

func mkNot(a string) string {
	switch a {
	case "true":
		return "false"
	case "false":
		return "true"
	}
	if strings.HasPrefix(a, "(not ") && balancedTail(a) {
		return a[5 : len(a)-1]
	}
	return "(not " + a + ")"
}

// balancedTail reports whether "(not X)" has X as exactly one term.
func balancedTail(a string) bool {
	depth := 0
	inq := false
	for i := 0; i < len(a); i++ {
		c := a[i]
		if c == '|' {
			inq = !inq
		}
		if inq {
			continue
		}
		if c == '(' {
			depth++
		} else if c == ')' {
			depth--
			if depth == 0 && i != len(a)-1 {
				return false
			}
		} else if c == ' ' && depth == 1 && i > 4 {
			return false
		}
	}
	return true
}

func mkAnd(as ...string) string {
	var out []string
	for _, a := range as {
		if a == "true" {
			continue
		}
		if a == "false" {
			return "false"
		}
		out = append(out, a)
	}
	switch len(out) {
	case 0:
		return "true"
	case 1:
		return out[0]
	}
	return "(and " + strings.Join(out, " ") + ")"
}

func mkOr(as ...string) string {
	var out []string
	for _, a := range as {
		if a == "false" {
			continue
		}
		if a == "true" {
			return "true"
		}
		out = append(out, a)
	}
	switch len(out) {
	case 0:
		return "false"
	case 1:
		return out[0]
	}
	return "(or " + strings.Join(out, " ") + ")"
}

func mkImp(a, b string) string {
	if a == "true" {
		return b
	}
	if a == "false" || b == "true" {
		return "true"
	}
	return "(=> " + a + " " + b + ")"
}

func isLit(a string) bool { return strings.HasPrefix(a, "#x") || strings.HasPrefix(a, "#b") }

func litVal(a string) (*big.Int, int, bool) {
	if strings.HasPrefix(a, "#x") {
		v, ok := new(big.Int).SetString(a[2:], 16)
		return v, 4 * (len(a) - 2), ok
	}
	if strings.HasPrefix(a, "#b") {
		v, ok := new(big.Int).SetString(a[2:], 2)
		return v, len(a) - 2, ok
	}
	return nil, 0, false
}

// bvAdd / bvSub fold literals and drop zero operands.
func bvAdd(a, b string) string {
	va, wa, oa := litVal(a)
	vb, wb, ob := litVal(b)
	switch {
	case oa && ob && wa == wb:
		return bvLit(wa, new(big.Int).Add(va, vb))
	case oa && va.Sign() == 0:
		return b
	case ob && vb.Sign() == 0:
		return a
	}
	return "(bvadd " + a + " " + b + ")"
}

func bvSub(a, b string) string {
	va, wa, oa := litVal(a)
	vb, wb, ob := litVal(b)
	switch {
	case oa && ob && wa == wb:
		return bvLit(wa, new(big.Int).Sub(va, vb))
	case ob && vb.Sign() == 0:
		return a
	case a == b:
		if _, w, ok := litVal(a); ok {
			return bvLitI(w, 0)
		}
	}
	return "(bvsub " + a + " " + b + ")"
}

func mkEq(a, b string) string {
	if a == b {
		return "true"
	}
	if isLit(a) && isLit(b) {
		return "false"
	}
	return "(= " + a + " " + b + ")"
}

func mkIte(c, a, b string) string {
	if c == "true" {
		return a
	}
	if c == "false" {
		return b
	}
	if a == b {
		return a
	}
	return "(ite " + c + " " + a + " " + b + ")"
}

// sel builds (select a i), forwarding through syntactically decidable stores:
// select(store(a, i, v), i) = v, and stores at a different fresh allocation are skipped.
func sel(a, i string) string {
	for strings.HasPrefix(a, "(store ") {
		parts := splitArgs(a[len("(store ") : len(a)-1])
		if len(parts) != 3 {
			break
		}
		if parts[1] == i {
			return parts[2]
		}
		if distinctFresh(parts[1], i) {
			a = parts[0]
			continue
		}
		break
	}
	return "(select " + a + " " + i + ")"
}

// distinctFresh: two different allocation symbols (new_*!N) denote different objects, and bit-vector
// literals that differ are different indices.
func distinctFresh(a, b string) bool {
	if a == b {
		return false
	}
	isNew := func(s string) bool { return strings.HasPrefix(s, "new_") || strings.HasPrefix(s, "|new_") }
	if isNew(a) && isNew(b) {
		return true
	}
	if strings.HasPrefix(a, "#x") && strings.HasPrefix(b, "#x") {
		return true
	}
	return false
}

// splitArgs splits the top-level terms of an S-expression body.
func splitArgs(s string) []string {
	var out []string
	depth := 0
	inq := false
	start := -1
	for i := 0; i < len(s); i++ {
		c := s[i]
		if c == '|' {
			inq = !inq
		}
		if inq {
			if start < 0 {
				start = i
			}
			continue
		}
		switch c {
		case '(':
			if depth == 0 && start < 0 {
				start = i
			}
			depth++
		case ')':
			depth--
		case ' ':
			if depth == 0 && start >= 0 {
				out = append(out, s[start:i])
				start = -1
			}
		default:
			if start < 0 {
				start = i
			}
		}
	}
	if start >= 0 {
		out = append(out, s[start:])
	}
	return out
}
func sto(a, i, v string) string      { return "(store " + a + " " + i + " " + v + ")" }
func constArr(sort, v string) string { return "((as const " + sort + ") " + v + ")" }
