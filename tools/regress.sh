#!/bin/bash
# runs the quick check of every claimed property; prints one line each; exit 1 if any fails
cd /verif
rc=0
for p in $(python3 -c "import json;print(' '.join(c['property_id'] for c in json.load(open('MANIFEST.json'))['checks']))"); do
  out=$(./check $p --tier quick 2>&1); r=$?
  echo "$out" | tail -1 | cut -c1-150
  if [ $r -ne 0 ]; then rc=1; echo "$out" | grep -E "VIOLATION|ENGINE" | head -5 | cut -c1-200; fi
done
exit $rc
