package main

import (
	"fmt"
	"go/token"
	"go/types"
	"os"
	"sort"
	"strings"

	"golang.org/x/tools/go/ssa"
)

// debugBind: at block blk the source variable name denoted SSA value v.
type debugBind struct {
	name string
	v    ssa.Value
	blk  *ssa.BasicBlock
}

type deferRec struct {
	instr *ssa.Defer
	block *ssa.BasicBlock
	fnVal Val
	args  []Val
}

type retRec struct {
	pc  string
	val Val
	st  *State
	blk *ssa.BasicBlock
}

type loopInfo struct {
	head         *ssa.BasicBlock
	body         map[*ssa.BasicBlock]bool
	ord          int
	spec         *LoopSpec
	preSt        *State // state at loop entry (before havoc)
	headSt       *State // state after havoc, at head
	phiVals      map[*ssa.Phi]Val
	variant0     string
	variantMore0 []string
	cands        []*autoInv
	iterHead     string // loopiter: number of completed iterations at the loop head (ghost)
	iterCur      string
}

type Frame struct {
	e         *Exec
	fn        *ssa.Function
	depth     int
	vals      map[ssa.Value]Val
	reach     map[*ssa.BasicBlock]string
	exitSt    map[*ssa.BasicBlock]*State
	edge      map[[2]*ssa.BasicBlock]string
	defers    []deferRec
	binds     []Val
	rets      []retRec
	st        *State // current state while executing a block
	pc        string
	cur       *ssa.BasicBlock
	top       bool
	loops     map[*ssa.BasicBlock]*loopInfo
	entryPC   string
	prefix    string // anchor prefix for inlined frames
	debugVars map[string]ssa.Value
	debugVals map[string]Val
	debugSrc  []debugBind
}

// runBody symbolically executes fn from state st under path condition pc.
func (e *Exec) runBody(fn *ssa.Function, args []Val, binds []Val, st *State, pc string, depth int, prefix string) (Val, *State, bool) {
	fr := &Frame{e: e, fn: fn, depth: depth, vals: map[ssa.Value]Val{}, reach: map[*ssa.BasicBlock]string{},
		exitSt: map[*ssa.BasicBlock]*State{}, edge: map[[2]*ssa.BasicBlock]string{}, binds: binds,
		top: depth == 0, entryPC: pc, prefix: prefix}
	for i, p := range fn.Params {
		fr.vals[p] = args[i]
	}
	for i, fv := range fn.FreeVars {
		if i < len(binds) {
			fr.vals[fv] = binds[i]
		}
	}
	e.stack = append(e.stack, fn)
	defer func() { e.stack = e.stack[:len(e.stack)-1] }()

	e.pcNow = pc
	fr.findLoops()
	order := fr.rpo()
	for _, b := range order {
		fr.execBlock(b, st)
	}
	if len(fr.rets) == 0 {
		return Val{}, st, false
	}
	// merge returns
	var conds []string
	var states []*State
	for _, r := range fr.rets {
		conds = append(conds, r.pc)
		states = append(states, r.st)
	}
	out := e.mergeStates(conds, states)
	if depth > 0 {
		// what follows an inlined call is executed only if the call returned (partial correctness,
		// assumption A4): the merged state is defined under the return conditions only
		e.assume(mkImp(pc, mkOr(conds...)))
	}
	var res Val
	rt := fn.Signature.Results()
	if rt.Len() > 0 {
		var T types.Type = rt
		if rt.Len() == 1 {
			T = rt.At(0).Type()
		}
		vals := make([]Val, len(fr.rets))
		for i, r := range fr.rets {
			vals[i] = r.val
		}
		res = e.mergeVals(T, conds, vals, "ret")
	}
	return res, out, true
}

func (e *Exec) mergeVals(T types.Type, conds []string, vals []Val, hint string) Val {
	if len(vals) == 1 {
		return vals[0]
	}
	same := true
	l0 := vals[0].leaves()
	for _, v := range vals[1:] {
		l := v.leaves()
		for i := range l {
			if l[i] != l0[i] {
				same = false
			}
		}
	}
	if same {
		return vals[0]
	}
	sorts := leafSorts(T)
	var terms []string
	for k, s := range sorts {
		allSame := true
		for _, v := range vals[1:] {
			if v.leaves()[k] != l0[k] {
				allSame = false
			}
		}
		if allSame {
			terms = append(terms, l0[k])
			continue
		}
		n := e.fresh(hint, s)
		for i, v := range vals {
			e.assume(mkImp(conds[i], mkEq(n, v.leaves()[k])))
		}
		terms = append(terms, n)
	}
	out := unflatten(T, &terms)
	// static info survives only if identical everywhere
	if vals[0].Fn != nil {
		ok := true
		for _, v := range vals[1:] {
			if v.Fn != vals[0].Fn {
				ok = false
			}
		}
		if ok && len(vals[0].Binds) == 0 {
			out.Fn = vals[0].Fn
		}
	}
	if vals[0].Dyn != nil {
		ok := true
		for _, v := range vals[1:] {
			if v.Dyn == nil || !types.Identical(v.Dyn, vals[0].Dyn) {
				ok = false
			}
		}
		if ok {
			out.Dyn = vals[0].Dyn
		}
	}
	nn := true
	for _, v := range vals {
		if !v.NN {
			nn = false
		}
	}
	out.NN = nn
	return out
}

// ---- CFG helpers

func (fr *Frame) isBackEdge(p, s *ssa.BasicBlock) bool { return s.Dominates(p) }

func (fr *Frame) findLoops() {
	fr.loops = map[*ssa.BasicBlock]*loopInfo{}
	for _, b := range fr.fn.Blocks {
		for _, s := range b.Succs {
			if fr.isBackEdge(b, s) {
				li := fr.loops[s]
				if li == nil {
					li = &loopInfo{head: s, body: map[*ssa.BasicBlock]bool{s: true}}
					fr.loops[s] = li
				}
				// natural loop: nodes reaching b without passing s
				stack := []*ssa.BasicBlock{b}
				for len(stack) > 0 {
					n := stack[len(stack)-1]
					stack = stack[:len(stack)-1]
					if li.body[n] {
						continue
					}
					li.body[n] = true
					for _, p := range n.Preds {
						stack = append(stack, p)
					}
				}
			}
		}
	}
	// ordinals in source order of the loop head position
	var heads []*ssa.BasicBlock
	for h := range fr.loops {
		heads = append(heads, h)
	}
	sort.Slice(heads, func(i, j int) bool {
		pi, pj := blockPos(heads[i]), blockPos(heads[j])
		if pi != pj {
			return pi < pj
		}
		return heads[i].Index < heads[j].Index
	})
	for i, h := range heads {
		fr.loops[h].ord = i + 1
		if os.Getenv("VERIF_LOOPS") != "" && fr.top {
			fmt.Fprintf(os.Stderr, "loop %d of %s: %s\n", i+1, fr.fn.Name(), fr.e.posOf(token.Pos(blockPos(h))))
		}
		if fr.top && fr.e.spec != nil {
			fr.loops[h].spec = fr.e.spec.Loops[i+1]
		} else if !fr.top {
			if sp := fr.e.L.specs.Funcs[fr.e.L.funcKey(fr.fn)]; sp != nil {
				fr.loops[h].spec = sp.Loops[i+1]
			}
		}
	}
}

func blockPos(b *ssa.BasicBlock) int {
	best := 0
	for _, in := range b.Instrs {
		if p := in.Pos(); p.IsValid() {
			if best == 0 || int(p) < best {
				best = int(p)
			}
		}
	}
	if best == 0 {
		// use successors' positions (header with only a phi+if)
		for _, s := range b.Succs {
			for _, in := range s.Instrs {
				if p := in.Pos(); p.IsValid() && (best == 0 || int(p) < best) {
					best = int(p)
				}
			}
		}
	}
	return best
}

func (fr *Frame) rpo() []*ssa.BasicBlock {
	seen := map[*ssa.BasicBlock]bool{}
	var post []*ssa.BasicBlock
	var dfs func(b *ssa.BasicBlock)
	dfs = func(b *ssa.BasicBlock) {
		seen[b] = true
		for _, s := range b.Succs {
			if fr.isBackEdge(b, s) {
				continue
			}
			if !seen[s] {
				dfs(s)
			}
		}
		post = append(post, b)
	}
	dfs(fr.fn.Blocks[0])
	for i, j := 0, len(post)-1; i < j; i, j = i+1, j-1 {
		post[i], post[j] = post[j], post[i]
	}
	return post
}

// ---- block execution

func (fr *Frame) execBlock(b *ssa.BasicBlock, st0 *State) {
	e := fr.e
	var conds []string
	var states []*State
	var preds []*ssa.BasicBlock
	if b == fr.fn.Blocks[0] {
		conds = []string{fr.entryPC}
		states = []*State{st0}
		preds = []*ssa.BasicBlock{nil}
	}
	for _, p := range b.Preds {
		if fr.isBackEdge(p, b) {
			continue
		}
		c, ok := fr.edge[[2]*ssa.BasicBlock{p, b}]
		if !ok || c == "false" {
			continue
		}
		conds = append(conds, c)
		states = append(states, fr.exitSt[p])
		preds = append(preds, p)
	}
	if len(conds) == 0 {
		fr.reach[b] = "false"
		return
	}
	var rc string
	if len(conds) == 1 && (b == fr.fn.Blocks[0] || !strings.HasPrefix(conds[0], "(")) {
		rc = conds[0]
	} else {
		rc = e.fresh(fmt.Sprintf("reach_%s_b%d", shortFn(fr.fn), b.Index), sBool)
		e.assume(mkEq(rc, mkOr(conds...)))
	}
	fr.reach[b] = rc
	fr.pc = rc
	e.pcNow = rc
	fr.cur = b
	fr.st = e.mergeStates(conds, states)

	li := fr.loops[b]
	// phis
	phiEdgeVals := func(phi *ssa.Phi) ([]string, []Val) {
		var cs []string
		var vs []Val
		for i, p := range b.Preds {
			if fr.isBackEdge(p, b) {
				continue
			}
			c, ok := fr.edge[[2]*ssa.BasicBlock{p, b}]
			if !ok || c == "false" {
				continue
			}
			cs = append(cs, c)
			vs = append(vs, fr.val(phi.Edges[i]))
		}
		return cs, vs
	}
	var phis []*ssa.Phi
	for _, in := range b.Instrs {
		if phi, ok := in.(*ssa.Phi); ok {
			phis = append(phis, phi)
		}
	}
	if li == nil {
		for _, phi := range phis {
			cs, vs := phiEdgeVals(phi)
			fr.vals[phi] = e.mergeVals(phi.Type(), cs, vs, "phi_"+phi.Name())
		}
	} else {
		// loop head: bind phis to entry values, check invariants, havoc, assume invariants
		entryVals := map[*ssa.Phi]Val{}
		for _, phi := range phis {
			cs, vs := phiEdgeVals(phi)
			entryVals[phi] = e.mergeVals(phi.Type(), cs, vs, "phi0_"+phi.Name())
			fr.vals[phi] = entryVals[phi]
		}
		li.preSt = fr.st.clone()
		li.iterCur = bvLitI(64, 0)
		recvDriven := false
		for _, hin := range li.head.Instrs {
			if u, ok := hin.(*ssa.UnOp); ok && u.Op == token.ARROW {
				recvDriven = true // range over a channel: every iteration waits for a message
			}
		}
		if recvDriven && fr.depth == 0 && e.spec != nil && e.spec.claimsTermination() {
			e.flag(fmt.Sprintf("loop %d is driven by a channel receive in its head: every iteration waits for a message, no measure asked", li.ord))
		}
		if !recvDriven && fr.depth == 0 && e.spec != nil && e.spec.claimsTermination() && (li.spec == nil || (li.spec.Decreases == nil && li.spec.Unroll == 0)) {
			// a function that claims termination (a decreases clause on it or on one of its loops) owes a measure for each of its loops
			e.missingVariants = append(e.missingVariants, &Obligation{ID: fmt.Sprintf("%s/variant/loop%d/missing#1", e.L.funcKeyShort(e.top), li.ord), Kind: "variant",
				Func: e.L.funcKeyShort(e.top), Pos: e.posOf(li.head.Instrs[0].Pos()), Prefix: 1, Goal: "false", Script: []string{"(set-logic ALL)"},
				Desc: fmt.Sprintf("loop %d of a function with a termination measure has no decreases clause of its own", li.ord)})
		}
		fr.checkInvariants(li, "inv-init", fr.pc, fr.st)
		li.cands = fr.autoCandidates(li, phis)
		for _, c := range li.cands {
			e.oblige("auto-inv-init", c.id, fr.pc, c.term(fr, fr.vals[c.phi]), e.posOf(li.head.Instrs[0].Pos()), "inferred loop invariant "+c.desc)
		}
		fr.havocLoop(li, phis)
		if _, used := e.keySort["X:lastsendalloc"]; used || (e.spec != nil && len(e.spec.OnSend) > 0) {
			// the "previous send" allocation mark was taken at some earlier point: it is not above the
			// allocation bound reached here
			e.keySort["X:lastsendalloc"] = sRef
			e.assume(mkImp(fr.pc, app("<=", e.heapGet(fr.st, "X:lastsendalloc", sRef), fr.st.alloc)))
		}
		if e.spec != nil && fr.depth == 0 {
			for name, cls := range e.spec.CallPre {
				for _, c := range cls {
					if strings.Contains(c.Src, "sincelastcall(") {
						key := "X:lastcallalloc:" + name
						e.keySort[key] = sRef
						e.assume(mkImp(fr.pc, app("<=", e.heapGet(fr.st, key, sRef), fr.st.alloc)))
						break
					}
				}
			}
		}
		// loopiter: the ghost count of completed iterations (physical: below 2^40)
		li.iterHead = e.fresh("loopiter", sBV64)
		e.assume(mkAnd(app("bvsle", bvLitI(64, 0), li.iterHead), app("bvslt", li.iterHead, bvLitI(64, 1<<40))))
		li.iterCur = li.iterHead
		for _, c := range li.cands {
			e.assume(mkImp(fr.pc, c.term(fr, fr.vals[c.phi])))
		}
		li.phiVals = map[*ssa.Phi]Val{}
		for _, phi := range phis {
			li.phiVals[phi] = fr.vals[phi]
		}
		fr.assumeInvariants(li, entryVals)
		li.headSt = fr.st.clone()
	}
	for _, in := range b.Instrs {
		if _, ok := in.(*ssa.Phi); ok {
			continue
		}
		if done := fr.execInstr(in); done {
			break
		}
	}
	fr.exitSt[b] = fr.st
}

func shortFn(fn *ssa.Function) string {
	n := fn.Name()
	return n
}

func (fr *Frame) setEdge(from, to *ssa.BasicBlock, c string) {
	k := [2]*ssa.BasicBlock{from, to}
	if old, ok := fr.edge[k]; ok {
		c = mkOr(old, c)
	}
	fr.edge[k] = c
	if fr.isBackEdge(from, to) {
		fr.backEdge(from, to, c)
	}
}

// ---- loops

// loopWrites statically collects the heap keys a loop body may write (transitively through
// callees that will be inlined or have contracts). all=true means "anything".
func (fr *Frame) loopWrites(li *loopInfo) (keys map[string]bool, all bool) {
	keys = map[string]bool{}
	if fr.e.spec != nil {
		// call counters of this contract may be bumped anywhere in the loop
		for _, g := range fr.e.spec.CallCount {
			keys["X:"+g] = true
		}
	}
	seenFn := map[*ssa.Function]bool{}
	var scanFn func(fn *ssa.Function, blocks []*ssa.BasicBlock, depth int)
	scanInstr := func(in ssa.Instruction, depth int) {
		switch x := in.(type) {
		case *ssa.Store:
			for _, k := range fr.e.keysOfPointer(x.Addr) {
				keys[k] = true
			}
		case *ssa.Send, *ssa.Select:
			if sel, isSel := in.(*ssa.Select); isSel {
				hasSend := false
				for _, stt := range sel.States {
					if stt.Dir == types.SendOnly {
						hasSend = true
					}
				}
				if !hasSend {
					return
				}
			}
			// the engine's ghost bookkeeping of channel sends
			if _, ok := fr.e.L.specs.GhostVars["chansends"]; ok {
				keys["X:chansends"] = true
			}
			if fr.e.spec != nil && depth == 0 && len(fr.e.spec.OnSend) > 0 {
				keys["X:lastsendalloc"] = true
			}
			if fr.e.spec != nil && depth == 0 {
				for name, cls := range fr.e.spec.CallPre {
					for _, c := range cls {
						if strings.Contains(c.Src, "sincelastcall(") {
							keys["X:lastcallalloc:"+name] = true
						}
					}
				}
			}
			if fr.e.spec != nil && depth == 0 {
				for g := range fr.e.spec.OnSendAdd {
					keys["X:"+g] = true
				}
			}
		case *ssa.Next:
			if rg, ok := x.Iter.(*ssa.Range); ok && !x.IsString {
				if _, isMap := rg.X.Type().Underlying().(*types.Map); isMap {
					keys[rangeKey(rg)] = true
				}
			}
		case *ssa.MapUpdate:
			for _, k := range mapKeys(x.Map.Type()) {
				keys[k] = true
			}
		case *ssa.Call, *ssa.Defer, *ssa.Go:
			cc := in.(ssa.CallInstruction).Common()
			if _, isGo := in.(*ssa.Go); isGo {
				if _, ok := fr.e.L.specs.GhostVars["gostarts"]; ok {
					keys["X:gostarts"] = true
				}
				return
			}
			if b, ok := cc.Value.(*ssa.Builtin); ok {
				switch b.Name() {
				case "append", "copy":
					if len(cc.Args) > 0 {
						if sl, ok := cc.Args[0].Type().Underlying().(*types.Slice); ok {
							for _, k := range fr.e.keysOfType(sl.Elem(), true) {
								keys[k] = true
							}
						}
					}
				case "delete":
					for _, k := range mapKeys(cc.Args[0].Type()) {
						keys[k] = true
					}
				case "close":
					keys["X:chclosed"] = true
				}
				return
			}
			callee := cc.StaticCallee()
			if callee == nil {
				if mc, ok := cc.Value.(*ssa.MakeClosure); ok {
					callee = mc.Fn.(*ssa.Function)
				}
			}
			if callee == nil {
				var sp *FuncSpec
				if cc.IsInvoke() {
					sp = fr.e.L.ifaceSpec(cc)
				} else {
					sp = fr.e.L.funcTypeSpec(cc.Value.Type())
				}
				if sp != nil && !sp.ModAll {
					var at []types.Type
					if cc.IsInvoke() {
						// interface contracts name the receiver a0 and the arguments a1...
						at = append(at, cc.Value.Type())
						for _, a := range cc.Args {
							at = append(at, a.Type())
						}
					} else {
						// function-type contracts: fn, then a0... (shifted by one)
						at = append(at, cc.Value.Type())
						for _, a := range cc.Args {
							at = append(at, a.Type())
						}
					}
					fr.e.argFT = !cc.IsInvoke()
					for _, m := range sp.Modifies {
						for _, k := range fr.e.keysOfModClause(nil, m, at...) {
							if k == "*" {
								all = true
							}
							keys[k] = true
						}
					}
					return
				}
				all = true
				return
			}
			if sp := fr.e.L.specFor(callee); sp != nil && !sp.Inline {
				if sp.ModAll {
					all = true
				}
				for _, m := range sp.Modifies {
					for _, k := range fr.e.keysOfModClause(callee, m) {
						if k == "*" {
							all = true
						}
						keys[k] = true
					}
				}
				return
			}
			if fr.e.L.modelled(callee) {
				return
			}
			if fr.e.canInline(callee, depth) && !seenFn[callee] {
				seenFn[callee] = true
				scanFn(callee, callee.Blocks, depth+1)
				return
			}
			if seenFn[callee] {
				return
			}
			all = true
		}
	}
	scanFn = func(fn *ssa.Function, blocks []*ssa.BasicBlock, depth int) {
		for _, b := range blocks {
			for _, in := range b.Instrs {
				scanInstr(in, depth)
				// closures created inside may be deferred/called: scan them conservatively
				if mc, ok := in.(*ssa.MakeClosure); ok {
					if cf, ok := mc.Fn.(*ssa.Function); ok && !seenFn[cf] {
						seenFn[cf] = true
						scanFn(cf, cf.Blocks, depth+1)
					}
				}
			}
		}
	}
	var blocks []*ssa.BasicBlock
	for b := range li.body {
		blocks = append(blocks, b)
	}
	sort.Slice(blocks, func(i, j int) bool { return blocks[i].Index < blocks[j].Index })
	scanFn(fr.fn, blocks, fr.depth)
	return keys, all
}

func (fr *Frame) havocLoop(li *loopInfo, phis []*ssa.Phi) {
	e := fr.e
	keys, all := fr.loopWrites(li)
	if all {
		e.havocAll(fr.st)
	} else {
		var ks []string
		for k := range keys {
			ks = append(ks, k)
		}
		sort.Strings(ks)
		for _, k := range ks {
			srt, ok := e.keySort[k]
			if !ok {
				// never accessed so far: give it a fresh generation symbol by touching it lazily
				e.pendingHavoc(fr.st, k)
				continue
			}
			fr.st.heap[k] = e.fresh("Hl_"+k, srt)
		}
		na := e.fresh("alloc", sRef)
		e.assume(app(">=", na, fr.st.alloc))
		fr.st.alloc = na
	}
	for _, phi := range phis {
		v := e.freshVal(phi.Type(), "loop_"+phi.Comment+"_"+phi.Name(), fr.pc)
		v.NN = fr.vals[phi].NN
		e.assumeRefsOld(v, fr.pc, fr.st.alloc) // whatever a loop-carried variable refers to exists already
		fr.vals[phi] = v
	}
}

// pendingHavoc marks key as havocked although its sort is not known yet: we register a
// state-local alias name that is declared on first use.
func (e *Exec) pendingHavoc(st *State, key string) {
	e.nf++
	st.heap[key] = fmt.Sprintf("\x00pending:%d:%s", e.nf, key)
}

func (fr *Frame) loopEnv(li *loopInfo, st *State, phiOverride map[*ssa.Phi]Val) *SpecEnv {
	env := fr.e.baseEnv(fr, st)
	for b := range li.body {
		for _, in := range b.Instrs {
			if nx, ok := in.(*ssa.Next); ok {
				if rg, ok := nx.Iter.(*ssa.Range); ok {
					if _, isMap := rg.X.Type().Underlying().(*types.Map); isMap && !li.body[rg.Block()] {
						env.rangeKey = rangeKey(rg)
						env.rangeMap = rg.X.Type()
					}
				}
			}
		}
	}
	for _, in := range li.head.Instrs {
		if phi, ok := in.(*ssa.Phi); ok && phi.Comment != "" {
			v := fr.vals[phi]
			if phiOverride != nil {
				if ov, ok := phiOverride[phi]; ok {
					v = ov
				}
			}
			env.vars[phi.Comment] = v
		}
	}
	if li.iterCur != "" {
		env.vars["loopiter"] = Val{T: tInt, S: li.iterCur}
	}
	return env
}

func (fr *Frame) checkInvariants(li *loopInfo, kind string, pc string, st *State) {
	if li.spec == nil {
		return
	}
	env := fr.loopEnv(li, st, nil)
	for i, inv := range li.spec.Invariants {
		t, err := env.evalBool(inv.E)
		if err != nil {
			fr.e.errs = append(fr.e.errs, fmt.Sprintf("%s: %v", inv.Line, err))
			continue
		}
		lbl := inv.Label
		if lbl == "" {
			lbl = fmt.Sprint(i + 1)
		}
		fr.e.oblige(kind, fmt.Sprintf("%sloop%d/%s", fr.prefix, li.ord, lbl), pc, t, inv.Line, inv.Src)
	}
}

func (fr *Frame) assumeInvariants(li *loopInfo, entryVals map[*ssa.Phi]Val) {
	e := fr.e
	// inferred: for integer phis that only move in one direction from their entry value
	if li.spec == nil {
		return
	}
	env := fr.loopEnv(li, fr.st, nil)
	for _, inv := range li.spec.Invariants {
		t, err := env.evalBool(inv.E)
		if err != nil {
			continue
		}
		e.assume(mkImp(fr.pc, t))
	}
	if li.spec.Decreases != nil {
		v, err := env.eval(li.spec.Decreases.E)
		if err == nil && kindOf(v.T) == kScalar {
			li.variant0 = v.S
		}
		li.variantMore0 = nil
		for _, dc := range li.spec.DecreasesMore {
			v, err := env.eval(dc.E)
			if err != nil {
				fr.e.errs = append(fr.e.errs, fmt.Sprintf("%s: %v", dc.Line, err))
				li.variantMore0 = append(li.variantMore0, "")
				continue
			}
			v, _ = env.coerce(v, tInt)
			li.variantMore0 = append(li.variantMore0, fr.e.toBV64(v))
		}
	}
}

func (fr *Frame) backEdge(from, head *ssa.BasicBlock, c string) {
	li := fr.loops[head]
	if li == nil {
		return
	}
	// values of the header phis along this edge
	ov := map[*ssa.Phi]Val{}
	for _, in := range head.Instrs {
		if phi, ok := in.(*ssa.Phi); ok {
			for i, p := range head.Preds {
				if p == from {
					ov[phi] = fr.val(phi.Edges[i])
				}
			}
		}
	}
	for _, cnd := range li.cands {
		if nv, ok := ov[cnd.phi]; ok {
			fr.e.oblige("auto-inv-preserve", cnd.id, c, cnd.term(fr, nv), fr.e.posOf(li.head.Instrs[0].Pos()), "inferred loop invariant "+cnd.desc)
		}
	}
	if li.spec == nil {
		return
	}
	// temporarily rebind header phis to their next-iteration values
	saved := map[*ssa.Phi]Val{}
	for phi, v := range ov {
		saved[phi] = fr.vals[phi]
		fr.vals[phi] = v
	}
	if li.iterHead != "" {
		li.iterCur = bvAdd(li.iterHead, bvLitI(64, 1))
	}
	fr.checkInvariants(li, "inv-preserve", c, fr.st)
	li.iterCur = li.iterHead
	if li.spec.Decreases != nil && li.variant0 != "" {
		env := fr.loopEnv(li, fr.st, nil)
		v, err := env.eval(li.spec.Decreases.E)
		if err == nil {
			w, signed, ok := intInfo(v.T)
			_ = w
			if ok {
				lt, le := "bvult", "bvule"
				if signed {
					lt, le = "bvslt", "bvsle"
				}
				zero := bvLitI(w, 0)
				goal := mkAnd(app(le, zero, li.variant0), app(lt, v.S, li.variant0))
				if len(li.spec.DecreasesMore) > 0 {
					// lexicographic: first component decreases, or stays and the rest decreases lexicographically
					bounded := []string{app(le, zero, li.variant0)}
					dec := app(lt, v.S, li.variant0)
					same := mkEq(v.S, li.variant0)
					for i, dc := range li.spec.DecreasesMore {
						if i >= len(li.variantMore0) || li.variantMore0[i] == "" {
							break
						}
						nv, err := env.eval(dc.E)
						if err != nil {
							break
						}
						nv, _ = env.coerce(nv, tInt)
						n := fr.e.toBV64(nv)
						z64 := bvLitI(64, 0)
						bounded = append(bounded, app("bvsle", z64, li.variantMore0[i]))
						dec = mkOr(dec, mkAnd(same, app("bvslt", n, li.variantMore0[i])))
						same = mkAnd(same, mkEq(n, li.variantMore0[i]))
					}
					goal = mkAnd(append(bounded, dec)...)
				}
				fr.e.oblige("variant", fmt.Sprintf("%sloop%d", fr.prefix, li.ord), c,
					goal, li.spec.Decreases.Line, li.spec.Decreases.Src)
			}
		}
	}
	for phi, v := range saved {
		fr.vals[phi] = v
	}
}

// ---- inferred loop invariants (Houdini-style candidates; every candidate is proved
// inductive like a user invariant, failing candidates are dropped by the driver and the
// function is regenerated without them)

type autoInv struct {
	id    string
	desc  string
	phi   *ssa.Phi
	op    string // SMT comparison
	other ssa.Value
}

func (c *autoInv) term(fr *Frame, pv Val) string {
	o := fr.val(c.other)
	return app(c.op, pv.S, o.S)
}

func (fr *Frame) autoCandidates(li *loopInfo, phis []*ssa.Phi) []*autoInv {
	var out []*autoInv
	inLoop := func(v ssa.Value) bool {
		if in, ok := v.(ssa.Instruction); ok {
			return li.body[in.Block()]
		}
		return false
	}
	for _, phi := range phis {
		w, signed, ok := intInfo(phi.Type())
		_ = w
		if !ok {
			continue
		}
		// one entry value, back-edge values of the form phi±k
		var init ssa.Value
		dir := 0
		good := true
		derived := map[ssa.Value]bool{phi: true}
		for i, p := range li.head.Preds {
			ev := phi.Edges[i]
			if fr.isBackEdge(p, li.head) {
				bo, ok := ev.(*ssa.BinOp)
				if !ok || bo.X != ssa.Value(phi) {
					good = false
					break
				}
				k, ok := bo.Y.(*ssa.Const)
				if !ok || k.Value == nil {
					good = false
					break
				}
				kv := k.Int64()
				d := 0
				switch {
				case bo.Op == token.ADD && kv > 0, bo.Op == token.SUB && kv < 0:
					d = 1
				case bo.Op == token.SUB && kv > 0, bo.Op == token.ADD && kv < 0:
					d = -1
				default:
					good = false
				}
				if dir != 0 && d != dir {
					good = false
				}
				dir = d
				derived[ev] = true
			} else {
				if init != nil && init != ev {
					good = false
				}
				init = ev
			}
		}
		if !good || init == nil || dir == 0 || inLoop(init) {
			continue
		}
		name := phi.Comment
		if name == "" {
			name = "idx"
		}
		cmp := func(s, u string) string {
			if signed {
				return s
			}
			return u
		}
		base := fmt.Sprintf("%sloop%d/%s", fr.prefix, li.ord, name)
		add := func(rule, op string, other ssa.Value, desc string) {
			id := base + "/" + rule
			if fr.e.disabledAuto[id] {
				return
			}
			for _, c := range out {
				if c.id == id {
					return
				}
			}
			out = append(out, &autoInv{id: id, desc: desc, phi: phi, op: op, other: other})
		}
		if dir > 0 {
			add("ge-init", cmp("bvsge", "bvuge"), init, name+" >= its initial value")
		} else {
			add("le-init", cmp("bvsle", "bvule"), init, name+" <= its initial value")
		}
		// comparisons of phi / phi±k against loop-invariant values inside the loop
		n := 0
		for b := range li.body {
			for _, in := range b.Instrs {
				bo, ok := in.(*ssa.BinOp)
				if !ok {
					continue
				}
				var other ssa.Value
				flip := false
				switch {
				case derived[bo.X] && !inLoop(bo.Y):
					other = bo.Y
				case derived[bo.Y] && !inLoop(bo.X):
					other = bo.X
					flip = true
				default:
					continue
				}
				var ops []string
				switch bo.Op {
				case token.LSS, token.LEQ:
					ops = []string{cmp("bvslt", "bvult"), cmp("bvsle", "bvule")}
					if flip {
						ops = []string{cmp("bvsgt", "bvugt"), cmp("bvsge", "bvuge")}
					}
				case token.GTR, token.GEQ:
					ops = []string{cmp("bvsgt", "bvugt"), cmp("bvsge", "bvuge")}
					if flip {
						ops = []string{cmp("bvslt", "bvult"), cmp("bvsle", "bvule")}
					}
				default:
					continue
				}
				n++
				for _, op := range ops {
					add(fmt.Sprintf("%s-%s", op, other.Name()), op, other, fmt.Sprintf("%s %s %s", name, op, other.Name()))
				}
			}
		}
	}
	sort.Slice(out, func(i, j int) bool { return out[i].id < out[j].id })
	return out
}
