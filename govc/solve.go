package main

import (
	"bytes"
	"context"
	"fmt"
	"os"
	"os/exec"
	"path/filepath"
	"regexp"
	"strings"
	"sync"
	"time"
)

type solverCfg struct {
	name string
	args func(file string, timeoutS float64) []string
}

var solvers = []solverCfg{
	{"z3-new", func(f string, t float64) []string { return []string{"z3-new", fmt.Sprintf("-T:%d", int(t+0.999)), f} }},
	{"z3", func(f string, t float64) []string { return []string{"z3", fmt.Sprintf("-T:%d", int(t+0.999)), f} }},
	{"cvc5", func(f string, t float64) []string {
		return []string{"cvc5", fmt.Sprintf("--tlimit=%d", int(t*1000)), f}
	}},
}

type solveOpts struct {
	timeout   float64 // seconds per obligation (full portfolio stage)
	fast      float64 // first stage: z3-new alone
	workers   int
	workDir   string
	keepFiles bool
	allAgree  bool // thorough: run all solvers and require no contradiction
	noRetry   bool
	patient   func(id string) bool // obligations known to be slow on the unchanged tree: third attempt
	seed      int
}

func (o *Obligation) script(seed int) string { return o.scriptR(seed, false) }

// renderLine expands the solver-neutral array definitions.
func renderLine(l string, lambda bool, relaxed bool) (string, bool) {
	if !strings.HasPrefix(l, ";@defarr ") {
		return l, true
	}
	f := strings.SplitN(l[len(";@defarr "):], " ", 3)
	name, idx, body := f[0], f[1], f[2]
	if lambda {
		return "(assert (= " + name + " (lambda ((" + idx + " (_ BitVec 64))) " + body + ")))", true
	}
	if relaxed {
		return "", false
	}
	return "(assert (forall ((" + idx + " (_ BitVec 64))) (! (= (select " + name + " " + idx + ") " + body + ") :pattern ((select " + name + " " + idx + ")))))", true
}

// scriptR: relaxed=true drops every assumption that contains a quantifier. Dropping assumptions
// only weakens the context, so "unsat" of the relaxed query still proves the obligation.
func (o *Obligation) scriptR(seed int, relaxed bool) string { return o.scriptRL(seed, relaxed, false) }

func (o *Obligation) scriptRL(seed int, relaxed bool, lambda bool) string {
	var b bytes.Buffer
	for i := 0; i < o.Prefix; i++ {
		l, keep := renderLine(o.Script[i], lambda, relaxed || o.Cover)
		if !keep {
			continue
		}
		if (o.Cover || relaxed) && strings.HasPrefix(l, "(assert") && (strings.Contains(l, "(forall ") || strings.Contains(l, "(exists ")) {
			continue // covers are decided modulo the quantified facts (relaxation)
		}
		b.WriteString(l)
		b.WriteByte('\n')
	}
	if o.Cover {
		b.WriteString("(assert " + o.Goal + ")\n")
	} else {
		b.WriteString("(assert (not " + o.Goal + "))\n")
	}
	b.WriteString("(check-sat)\n")
	if len(o.Inputs) > 0 && !o.Cover && seed >= 0 {
		var ts []string
		for _, m := range o.Inputs {
			ts = append(ts, m.Term)
		}
		b.WriteString("(get-value (" + strings.Join(ts, " ") + "))\n")
	}
	return b.String()
}

var reSafe = regexp.MustCompile(`[^A-Za-z0-9_.\-]+`)

func runSolver(ctx context.Context, s solverCfg, file string, timeout float64) (verdict, out string, dur float64) {
	args := s.args(file, timeout)
	cctx, cancel := context.WithTimeout(ctx, time.Duration((timeout+2)*float64(time.Second)))
	defer cancel()
	cmd := exec.CommandContext(cctx, args[0], args[1:]...)
	var buf bytes.Buffer
	cmd.Stdout = &buf
	cmd.Stderr = &buf
	t0 := time.Now()
	cmd.Run()
	dur = time.Since(t0).Seconds()
	out = buf.String()
	first := strings.TrimSpace(strings.SplitN(out, "\n", 2)[0])
	switch first {
	case "sat", "unsat", "unknown":
		verdict = first
	default:
		if strings.Contains(first, "timeout") || cctx.Err() != nil {
			verdict = "timeout"
		} else {
			verdict = "error"
		}
	}
	return
}

// discharge decides one obligation with the portfolio.
func discharge(o *Obligation, opt *solveOpts, idx int) {
	if o.Kind == "jsonable" || o.Kind == "recover-frame" || o.Kind == "confine" || o.Kind == "bounded" {
		// structural obligations are decided by the generator itself (go/types, SSA shape)
		o.Solver = "structural(go/types+ssa)"
		if o.Kind == "bounded" {
			o.Solver = "bounded-enumeration(go)"
		}
		if o.Goal == "true" {
			o.Verdict = "unsat"
		} else {
			o.Verdict = "unknown"
			o.Raw = "structural rule not satisfied: " + o.Desc
		}
		return
	}
	file := filepath.Join(opt.workDir, fmt.Sprintf("%04d_%s.smt2", idx, reSafe.ReplaceAllString(o.ID, "_")))
	if len(file) > 200 {
		file = file[:200] + ".smt2"
	}
	full := o.script(opt.seed)
	t0 := time.Now()
	defer func() { o.Time = time.Since(t0).Seconds() }()
	ctx := context.Background()
	hasQ := false
	for i := 0; i < o.Prefix; i++ {
		if (strings.HasPrefix(o.Script[i], "(assert") && strings.Contains(o.Script[i], "(forall ")) || strings.HasPrefix(o.Script[i], ";@defarr") {
			hasQ = true
			break
		}
	}
	var relaxedSat string
	if hasQ && !o.Cover {
		rfile := file + ".relaxed.smt2"
		os.WriteFile(rfile, []byte(o.scriptR(opt.seed, true)), 0o644)
		// z3-new and z3 4.8 side by side: on quantifier-free UF+BV queries either can be far faster
		type rres struct{ v, out, name string }
		rch := make(chan rres, 2)
		rc, rcancel := context.WithCancel(ctx)
		for _, sv := range solvers[:2] {
			sv := sv
			go func() {
				v, out, _ := runSolver(rc, sv, rfile, opt.fast)
				rch <- rres{v, out, sv.name}
			}()
		}
		var first *rres
		for k := 0; k < 2; k++ {
			r := <-rch
			if r.v == "unsat" || r.v == "sat" {
				first = &r
				break
			}
		}
		rcancel()
		if !opt.keepFiles {
			defer os.Remove(rfile)
		}
		if first != nil && first.v == "unsat" {
			o.Verdict, o.Solver, o.Raw = "unsat", first.name+"(qf-relaxed)", first.out
			return
		}
		if first != nil && first.v == "sat" {
			relaxedSat = first.out
		}
	}
	defer func() {
		// no definite answer on the full query: keep the candidate model of the relaxed one
		if o.Verdict == "timeout" {
			o.TimedOut = true
		}
		if (o.Verdict == "unknown" || o.Verdict == "timeout") && relaxedSat != "" {
			o.Raw = relaxedSat
			o.Relaxed = true
			o.Verdict = "sat-relaxed"
		}
	}()
	os.WriteFile(file, []byte(full), 0o644)
	if !opt.keepFiles {
		defer os.Remove(file)
	}
	if !opt.allAgree {
		v, out, _ := runSolver(ctx, solvers[0], file, opt.fast)
		if v == "sat" || v == "unsat" {
			o.Verdict, o.Solver, o.Raw = v, solvers[0].name, out
			return
		}
	}
	// race (or run all)
	type res struct {
		v, out, name string
	}
	rctx, cancel := context.WithCancel(ctx)
	defer cancel()
	ch := make(chan res, len(solvers))
	// a fourth configuration: z3-new with array definitions as lambda terms instead of quantifiers
	racers := append([]solverCfg{}, solvers...)
	lfile := ""
	if hasQ {
		for i := 0; i < o.Prefix; i++ {
			if strings.HasPrefix(o.Script[i], ";@defarr") {
				lfile = file + ".lambda.smt2"
				break
			}
		}
	}
	if lfile != "" {
		os.WriteFile(lfile, []byte(o.scriptRL(opt.seed, false, true)), 0o644)
		if !opt.keepFiles {
			defer os.Remove(lfile)
		}
		racers = append(racers, solverCfg{"z3-new/lambda", solvers[0].args})
	}
	// (z3's int-blasting bit-vector solver, smt.bv.solver=2, was tried here for linear arithmetic over
	// wide bit-vectors and removed: z3 5.1.0 answered unsat with it on a satisfiable query - caught by
	// the reachability covers of canary.(*Canary).send.)
	if hasQ {
		// quantifier instantiation order depends on symbol names and the random seed: two more seeds make
		// a proof that exists robust against renamings elsewhere in the tree
		for _, sd := range []int{1, 7} {
			sd := sd
			racers = append(racers, solverCfg{fmt.Sprintf("z3-new/seed%d", sd), func(f string, t float64) []string {
				return []string{"z3-new", fmt.Sprintf("-T:%d", int(t+0.999)), fmt.Sprintf("smt.random_seed=%d", sd), f}
			}})
		}
	}
	ch = make(chan res, len(racers))
	for _, s := range racers {
		s := s
		f := file
		if s.name == "z3-new/lambda" {
			f = lfile
		}
		go func() {
			v, out, _ := runSolver(rctx, s, f, opt.timeout)
			ch <- res{v, out, s.name}
		}()
	}
	var got []res
	for range racers {
		r := <-ch
		got = append(got, r)
		if !opt.allAgree && (r.v == "sat" || r.v == "unsat") {
			o.Verdict, o.Solver, o.Raw = r.v, r.name, r.out
			return
		}
	}
	// all finished
	var def *res
	for i := range got {
		r := &got[i]
		if r.v == "sat" || r.v == "unsat" {
			if def != nil && def.v != r.v {
				o.Verdict, o.Solver = "contradiction", def.name+"="+def.v+" vs "+r.name+"="+r.v
				o.Raw = def.out + "\n---\n" + r.out
				return
			}
			if def == nil {
				def = r
			}
		}
	}
	if def != nil {
		o.Verdict, o.Solver, o.Raw = def.v, def.name, def.out
		return
	}
	o.Verdict = "unknown"
	nerr := 0
	for _, r := range got {
		if r.v == "error" {
			nerr++
		}
	}
	if nerr == len(got) {
		o.Verdict = "error"
	}
	for _, r := range got {
		if r.v == "timeout" {
			o.Verdict = "timeout"
		}
		o.Raw += r.name + ": " + strings.SplitN(r.out, "\n", 2)[0] + "\n"
	}
	o.Solver = "none"
}

func dischargeAll(obls []*Obligation, opt *solveOpts) {
	var wg sync.WaitGroup
	ch := make(chan int)
	for w := 0; w < opt.workers; w++ {
		wg.Add(1)
		go func() {
			defer wg.Done()
			for i := range ch {
				discharge(obls[i], opt, i)
			}
		}()
	}
	for i := range obls {
		ch <- i
	}
	close(ch)
	wg.Wait()
	// Obligations that ran out of time while all workers were busy get a second, sequential attempt with
	// three times the time: a slow but stable proof must not become an alarm under load. An obligation that
	// is left with a candidate model of the relaxed query after a timeout counts as timed out too, but only
	// when there are few of them (many open obligations are a broken proof, not load). Obligations that the
	// property lists as slow on the unchanged tree ("patient") get a third attempt with nine times the time.
	if !opt.noRetry {
		open := func(o *Obligation) bool {
			return (o.Verdict == "timeout" || (o.TimedOut && o.Verdict == "sat-relaxed")) && !o.Cover
		}
		for _, factor := range []float64{3, 9} {
			ropt := *opt
			ropt.timeout = opt.timeout * factor
			ropt.fast = opt.fast * factor
			ropt.noRetry = true
			nRelaxed := 0
			for _, o := range obls {
				if open(o) && o.Verdict == "sat-relaxed" {
					nRelaxed++
				}
			}
			for i, o := range obls {
				if !open(o) {
					continue
				}
				if o.Verdict == "sat-relaxed" && nRelaxed > 3 {
					continue
				}
				if factor > 3 && (opt.patient == nil || !opt.patient(o.ID)) {
					continue
				}
				o.Verdict, o.Raw, o.Solver, o.Relaxed, o.TimedOut = "", "", "", false, false
				discharge(o, &ropt, i)
			}
		}
	}
}

// parseGetValue extracts ((term value) ...) pairs in order.
func parseGetValue(raw string, inputs []ModelTerm) map[string]string {
	out := map[string]string{}
	i := strings.Index(raw, "\n")
	if i < 0 {
		return out
	}
	body := strings.TrimSpace(raw[i+1:])
	if !strings.HasPrefix(body, "(") {
		return out
	}
	// split top-level pairs
	depth := 0
	start := -1
	var pairs []string
	inq := false
	for j := 0; j < len(body); j++ {
		c := body[j]
		if c == '|' {
			inq = !inq
		}
		if inq {
			continue
		}
		if c == '(' {
			depth++
			if depth == 2 {
				start = j
			}
		} else if c == ')' {
			if depth == 2 && start >= 0 {
				pairs = append(pairs, body[start:j+1])
				start = -1
			}
			depth--
			if depth == 0 {
				break
			}
		}
	}
	for k, p := range pairs {
		if k >= len(inputs) {
			break
		}
		// value is the last top-level element of the pair
		p = strings.TrimSpace(p[1 : len(p)-1])
		val := lastTerm(p)
		out[inputs[k].Name] = val
	}
	return out
}

func lastTerm(p string) string {
	p = strings.TrimSpace(p)
	if strings.HasSuffix(p, ")") {
		depth := 0
		for j := len(p) - 1; j >= 0; j-- {
			if p[j] == ')' {
				depth++
			} else if p[j] == '(' {
				depth--
				if depth == 0 {
					return p[j:]
				}
			}
		}
	}
	j := strings.LastIndexAny(p, " \t\n")
	return p[j+1:]
}

// vacuous lists the cover obligations that indicate a vacuous proof: an unsatisfiable
// precondition, or a function none of whose returns is reachable. A single dead return
// (e.g. `if recv == nil` under the implicit non-nil receiver) is not a failure.
func vacuous(obls []*Obligation) (bad []*Obligation, dead []*Obligation) {
	type st struct {
		rets, deadRets int
		sample         *Obligation
	}
	per := map[string]*st{}
	for _, o := range obls {
		if !o.Cover {
			continue
		}
		if strings.Contains(o.ID, "/cover/requires") {
			if o.Verdict == "unsat" {
				bad = append(bad, o)
			}
			continue
		}
		s := per[o.Func]
		if s == nil {
			s = &st{}
			per[o.Func] = s
		}
		s.rets++
		if o.Verdict == "unsat" {
			s.deadRets++
			dead = append(dead, o)
			s.sample = o
		}
	}
	for _, s := range per {
		if s.rets > 0 && s.rets == s.deadRets {
			bad = append(bad, s.sample)
		}
	}
	return
}

// pending: obligations that have no verdict yet (the Houdini rounds already decided some)
func pending(obls []*Obligation) []*Obligation {
	var out []*Obligation
	for _, o := range obls {
		if o.Verdict == "" {
			out = append(out, o)
		}
	}
	return out
}
