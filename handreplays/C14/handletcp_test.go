package canary

// Hand replays for property C14 (run through an overlay, see DESIGN.md):
//  H2  handleTCP/post/established: server ISS 0xFFFFFFFF, the client's ACK of SND.NXT must establish
//  H4  handleTCP/callpre/send (FIN|ACK): a FIN segment that carries data must be acked with SEQ+LEN+1
//  H5  StateTable.Get/post/orientation: a segment A:80 -> S:1234 must not match the state A:1234 -> S:80

import (
	"fmt"
	"net"
	"testing"

	"github.com/glycerine/rbuf"
	"github.com/honeytrap/honeytrap/listener/canary/ethernet"
	"github.com/honeytrap/honeytrap/listener/canary/ipv4"
	"github.com/honeytrap/honeytrap/listener/canary/tcp"
	"github.com/honeytrap/honeytrap/pushers"
)

func handCanary(t *testing.T) *Canary {
	lo, err := net.InterfaceByName("lo")
	if err != nil {
		t.Skip("no lo interface")
	}
	return &Canary{networkInterfaces: []net.Interface{*lo}, buffer: rbuf.NewFixedSizeRingBuf(65535),
		descriptors: map[string]int32{}, knockChan: make(chan interface{}, 100), events: pushers.MustDummy(),
		ac: ARPCache{{IP: net.IPv4(127, 0, 0, 9), HardwareAddress: net.HardwareAddr{1, 2, 3, 4, 5, 6}, Interface: "lo"}}}
}

func handSegment(seq, ack uint32, flags tcp.Flag, payload []byte) []byte {
	h := &tcp.Header{Source: 4000, Destination: 8080, SeqNum: seq, AckNum: ack, Ctrl: flags, Window: 1000, Options: []tcp.Option{}, Payload: payload}
	b, _ := h.Marshal()
	return b
}

func TestHandC14(t *testing.T) {
	c := handCanary(t)
	eh := &ethernet.Frame{Source: net.HardwareAddr{1, 2, 3, 4, 5, 6}, Destination: net.HardwareAddr{6, 5, 4, 3, 2, 1}}
	iph := &ipv4.Header{Src: net.IPv4(127, 0, 0, 9), Dst: net.IPv4(127, 0, 0, 1)}

	// H2
	st := c.NewState(iph.Src, 4000, iph.Dst, 8080)
	st.InitialSendSequenceNumber = 0xFFFFFFFF
	st.SendUnacknowledged = 0xFFFFFFFF
	st.SendNext = 1 // ISS + 2 (mod 2^32)
	st.RecvNext = 101
	st.State = SocketSynReceived
	st.socket = st.NewSocket(&net.TCPAddr{IP: iph.Src, Port: 4000}, &net.TCPAddr{IP: iph.Dst, Port: 8080})
	c.stateTable.Add(st)
	c.handleTCP(eh, iph, handSegment(101, st.SendNext, tcp.ACK, nil))
	fmt.Println("HAND-H2 state after ACK of SND.NXT with ISS=2^32-1:", st.State, "(want SocketEstablished)")

	// H4
	st.State = SocketEstablished
	st.RecvNext = 101
	c.handleTCP(eh, iph, handSegment(101, st.SendNext, tcp.FIN|tcp.ACK, []byte("bye!")))
	fmt.Println("HAND-H4 RecvNext after FIN with 4 data bytes at seq 101:", st.RecvNext, "(want 106)")

	// H5
	var tbl StateTable
	a, s := net.IPv4(10, 0, 0, 1), net.IPv4(10, 0, 0, 2)
	tbl.Add(&State{SrcIP: a, SrcPort: 1234, DestIP: s, DestPort: 80})
	fmt.Println("HAND-H5 lookup A:80 -> S:1234 finds state of A:1234 -> S:80:", tbl.Get(a, s, 80, 1234) != nil, "(want false)")
}
