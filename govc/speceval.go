package main

import (
	"fmt"
	"go/constant"
	"go/types"
	"math/big"
	"os"
	"strings"

	"golang.org/x/tools/go/ssa"
)

// ---- evaluation of contract expressions into SMT terms ----

var tUntyped = types.Typ[types.UntypedInt]

type SpecEnv struct {
	e        *Exec
	pkg      *types.Package
	vars     map[string]Val
	st       *State
	old      *State
	depth    int
	cells    *State // state in which local variables held in memory are read (never switched by old())
	topLevel bool   // names are those of the function under verification (not a callee's contract)
	rangeKey string // ghost visited-set of the map iteration of the loop being specified
	rangeMap types.Type
	callName string // callpre clauses: the callee name the clause was written for
}

func (env *SpecEnv) child() *SpecEnv {
	n := &SpecEnv{e: env.e, pkg: env.pkg, vars: map[string]Val{}, st: env.st, old: env.old, depth: env.depth + 1, rangeKey: env.rangeKey, rangeMap: env.rangeMap, topLevel: env.topLevel, cells: env.cells}
	for k, v := range env.vars {
		n.vars[k] = v
	}
	return n
}

// baseEnv: names visible in the function under verification: params, receiver, free vars,
// named locals held in Allocs.
func (e *Exec) baseEnv(fr *Frame, st *State) *SpecEnv {
	env := &SpecEnv{e: e, pkg: fr.fn.Pkg.Pkg, vars: map[string]Val{}, st: st, old: e.entry, topLevel: fr.depth == 0}
	if fr.fn.Pkg == nil && fr.fn.Parent() != nil {
		env.pkg = fr.fn.Parent().Pkg.Pkg
	}
	for _, p := range fr.fn.Params {
		env.vars[p.Name()] = fr.vals[p]
		env.vars["now."+p.Name()] = fr.vals[p]
	}
	for _, fv := range fr.fn.FreeVars {
		// free variables are pointers to the captured variable
		if v, ok := fr.vals[fv]; ok {
			env.vars["&"+fv.Name()] = v
		}
	}
	// named locals: the latest binding recorded in a block that dominates the current point
	// (a binding made on another path says nothing here)
	bound := map[string]*ssa.BasicBlock{} // block of the binding chosen for each name
	for _, db := range fr.debugSrc {
		if fr.cur != nil && db.blk != fr.cur && !db.blk.Dominates(fr.cur) {
			continue
		}
		if v, ok := fr.vals[db.v]; ok {
			if _, isParam := paramNames(fr.fn)[db.name]; isParam {
				env.vars["now."+db.name] = v
				bound["now."+db.name] = db.blk
				continue // parameter names denote the argument values (loop invariants see the loop variable)
			}
			env.vars[db.name] = v
			bound[db.name] = db.blk
		}
	}
	// a variable carried round a loop is a phi at the loop head, which no debug reference names: at a point
	// the head dominates, the phi is the variable's value unless a later assignment (bound above, in a block
	// the head dominates) has replaced it. Without this, a name used inside an inner loop denoted the value
	// the variable had before the outer loop.
	if fr.cur != nil {
		for _, b := range fr.fn.Blocks {
			if fr.loops[b] == nil || (b != fr.cur && !b.Dominates(fr.cur)) {
				continue
			}
			for _, in := range b.Instrs {
				phi, ok := in.(*ssa.Phi)
				if !ok {
					break
				}
				name := phi.Comment
				if name == "" {
					continue
				}
				if _, isParam := paramNames(fr.fn)[name]; isParam {
					name = "now." + name
				}
				v, done := fr.vals[phi]
				if !done {
					continue
				}
				if bb, ok := bound[name]; ok && bb != b && b.Dominates(bb) {
					continue // assigned again after the loop head, on the way to this point
				}
				if bb, ok := bound[name]; ok && bb == b {
					continue // assigned in the head block itself
				}
				env.vars[name] = v
				bound[name] = b
			}
		}
	}
	// named local variables that live in memory (address taken): aggregates are visible as a
	// pointer to them (field access dereferences), others through "&name" (loaded on use)
	for _, b := range fr.fn.Blocks {
		for _, in := range b.Instrs {
			al, ok := in.(*ssa.Alloc)
			if !ok || al.Comment == "" || al.Comment == "complit" || al.Comment == "varargs" {
				continue
			}
			v, done := fr.vals[al]
			if !done {
				continue
			}
			if fr.cur != nil && al.Block() != fr.cur && !al.Block().Dominates(fr.cur) {
				continue // not allocated on the path to the current point
			}
			if _, clash := env.vars[al.Comment]; clash {
				continue
			}
			T := al.Type().Underlying().(*types.Pointer).Elem()
			if isAggregate(T) {
				env.vars[al.Comment] = v
			} else if _, clash := env.vars["&"+al.Comment]; !clash {
				env.vars["&"+al.Comment] = v
			}
		}
	}
	return env
}

func (e *Exec) calleeEnv(callee *ssa.Function, sp *FuncSpec, args []Val, binds []Val, st *State, old *State) *SpecEnv {
	env := &SpecEnv{e: e, vars: map[string]Val{}, st: st, old: old}
	if old == nil {
		env.old = st
	}
	if callee != nil {
		if callee.Pkg != nil {
			env.pkg = callee.Pkg.Pkg
		} else if callee.Parent() != nil && callee.Parent().Pkg != nil {
			env.pkg = callee.Parent().Pkg.Pkg
		}
		for i, p := range callee.Params {
			if i < len(args) {
				v := args[i]
				v.T = p.Type()
				env.vars[p.Name()] = v
			}
		}
		for i, fv := range callee.FreeVars {
			if i < len(binds) {
				env.vars["&"+fv.Name()] = binds[i]
			}
		}
	} else {
		// interface method / function type: recv (or fn) is args[0]; a0, a1, ... the rest
		if sp != nil && sp.FuncType {
			if len(args) > 0 {
				env.vars["fn"] = args[0]
			}
			for i, a := range args[1:] {
				env.vars[fmt.Sprintf("a%d", i)] = a
			}
		} else {
			for i, a := range args {
				env.vars[fmt.Sprintf("a%d", i)] = a
			}
			if len(args) > 0 {
				env.vars["recv"] = args[0]
			}
		}
		if sp != nil && sp.Pkg != "" {
			env.pkg = e.L.pkgByPath(sp.Pkg)
		}
	}
	if env.pkg == nil {
		env.pkg = e.top.Pkg.Pkg
	}
	return env
}

func (env *SpecEnv) bindResult(callee *ssa.Function, resT types.Type, res Val) {
	env.vars["result"] = res
	if t, ok := resT.(*types.Tuple); ok {
		for i := 0; i < t.Len(); i++ {
			env.vars[fmt.Sprintf("result%d", i)] = res.F[i]
			if n := t.At(i).Name(); n != "" && n != "_" {
				env.vars[n] = res.F[i]
			}
		}
	} else if callee != nil && callee.Signature.Results().Len() == 1 {
		if n := callee.Signature.Results().At(0).Name(); n != "" && n != "_" {
			env.vars[n] = res
		}
	}
}

func (env *SpecEnv) evalBool(x *SExpr) (string, error) {
	v, err := env.eval(x)
	if err != nil {
		return "", err
	}
	if scalarSort(v.T) != sBool || kindOf(v.T) != kScalar {
		return "", fmt.Errorf("boolean expected: %s", x)
	}
	return v.S, nil
}

func isUntyped(v Val) bool {
	b, ok := v.T.(*types.Basic)
	return ok && b.Kind() == types.UntypedInt
}

// coerce turns an untyped constant into a value of type T.
func (env *SpecEnv) coerce(v Val, T types.Type) (Val, error) {
	if !isUntyped(v) {
		return v, nil
	}
	bi, _ := new(big.Int).SetString(v.S, 10)
	if w, _, ok := intInfo(T); ok {
		return Val{T: T, S: bvLit(w, bi)}, nil
	}
	if scalarSort(T) == sRef && kindOf(T) == kScalar {
		return Val{T: T, S: bi.String()}, nil
	}
	return v, fmt.Errorf("cannot use constant %s as %s", v.S, T)
}

func (env *SpecEnv) resolveType(name string) (types.Type, error) {
	if strings.TrimSpace(name) == "list" {
		return listType, nil
	}
	return env.e.L.resolveType(env.pkg, name)
}

func (env *SpecEnv) eval(x *SExpr) (Val, error) {
	e := env.e
	switch x.Op {
	case "int":
		bi, ok := new(big.Int).SetString(x.Tok, 0)
		if !ok {
			return Val{}, fmt.Errorf("bad integer %q", x.Tok)
		}
		return Val{T: tUntyped, S: bi.String()}, nil
	case "bool":
		return Val{T: tBool, S: x.Tok}, nil
	case "str":
		return Val{T: tString, S: e.strLit(x.Tok)}, nil
	case "nil":
		return Val{T: types.Typ[types.UntypedNil], S: "nil"}, nil
	case "id":
		return env.evalIdent(x.Tok)
	case "un":
		a, err := env.eval(x.Args[0])
		if err != nil {
			return Val{}, err
		}
		switch x.Tok {
		case "!":
			return Val{T: tBool, S: mkNot(a.S)}, nil
		case "-":
			if isUntyped(a) {
				bi, _ := new(big.Int).SetString(a.S, 10)
				return Val{T: tUntyped, S: bi.Neg(bi).String()}, nil
			}
			return Val{T: a.T, S: app("bvneg", a.S)}, nil
		case "^":
			return Val{T: a.T, S: app("bvnot", a.S)}, nil
		case "*":
			if a.A != nil {
				return e.loadAddr(env.st, a.A), nil
			}
			pt, ok := a.T.Underlying().(*types.Pointer)
			if !ok {
				return Val{}, fmt.Errorf("cannot dereference %s", x.Args[0])
			}
			return e.loadAt(env.st, a.S, pt.Elem()), nil
		}
	case "bin":
		return env.evalBin(x)
	case "sel":
		// caller.x inside a call-site condition: the caller's x even when the callee has a parameter x
		if x.Args[0].Op == "id" && x.Args[0].Tok == "now" {
			// now.p: the CURRENT value of a parameter that the function reassigns (the bare name denotes the argument)
			if v, ok := env.vars["now."+x.Tok]; ok {
				return v, nil
			}
		}
		if x.Args[0].Op == "id" && x.Args[0].Tok == "caller" {
			if v, ok := env.vars["caller."+x.Tok]; ok {
				return v, nil
			}
			if _, ok := env.vars["caller.&"+x.Tok]; ok {
				sub := env.child()
				sub.vars = map[string]Val{"&" + x.Tok: env.vars["caller.&"+x.Tok]}
				return sub.evalIdent(x.Tok)
			}
		}
		// package-qualified identifier?
		if x.Args[0].Op == "id" {
			if _, isVar := env.vars[x.Args[0].Tok]; !isVar {
				if p := e.L.importedPkg(env.pkg, x.Args[0].Tok); p != nil {
					return env.evalPkgMember(p, x.Tok)
				}
			}
		}
		a, err := env.eval(x.Args[0])
		if err != nil {
			return Val{}, err
		}
		return env.selectField(a, x.Tok)
	case "idx":
		a, err := env.eval(x.Args[0])
		if err != nil {
			return Val{}, err
		}
		i, err := env.eval(x.Args[1])
		if err != nil {
			return Val{}, err
		}
		return env.index(a, i)
	case "slice":
		a, err := env.eval(x.Args[0])
		if err != nil {
			return Val{}, err
		}
		var lo, hi *Val
		if x.Args[1] != nil {
			v, err := env.eval(x.Args[1])
			if err != nil {
				return Val{}, err
			}
			v, _ = env.coerce(v, tInt)
			lo = &v
		}
		if x.Args[2] != nil {
			v, err := env.eval(x.Args[2])
			if err != nil {
				return Val{}, err
			}
			v, _ = env.coerce(v, tInt)
			hi = &v
		}
		return env.sliceOf(a, lo, hi)
	case "call":
		return env.evalCall(x)
	case "quant":
		child := env.child()
		var binders []string
		for _, qv := range x.Vars {
			T, err := env.resolveType(qv.Type)
			if err != nil {
				return Val{}, err
			}
			if kindOf(T) != kScalar {
				return Val{}, fmt.Errorf("quantified variable %s must be scalar", qv.Name)
			}
			e.nf++
			nm := sym(fmt.Sprintf("q_%s!%d", qv.Name, e.nf))
			binders = append(binders, "("+nm+" "+scalarSort(T)+")")
			child.vars[qv.Name] = Val{T: T, S: nm}
		}
		b, err := child.evalBool(x.Args[0])
		if err != nil {
			return Val{}, err
		}
		if x.Tok == "forall" && len(x.Vars) == 1 {
			// explicit triggers: the element reads indexed by the bound variable (solvers do not
			// infer patterns through bit-vector arithmetic)
			qn := child.vars[x.Vars[0].Name].S
			if pats := selectPatterns(b, qn); len(pats) > 0 && len(pats) <= 6 {
				var ps []string
				for _, p := range pats {
					ps = append(ps, ":pattern ("+p+")")
				}
				return Val{T: tBool, S: "(forall (" + strings.Join(binders, " ") + ") (! " + b + " " + strings.Join(ps, " ") + "))"}, nil
			}
		}
		return Val{T: tBool, S: "(" + x.Tok + " (" + strings.Join(binders, " ") + ") " + b + ")"}, nil
	}
	return Val{}, fmt.Errorf("cannot evaluate %s", x)
}

func (env *SpecEnv) evalIdent(name string) (Val, error) {
	e := env.e
	if v, ok := env.vars[name]; ok {
		return v, nil
	}
	if v, ok := env.vars["&"+name]; ok { // captured variable: the closure holds its address
		cst := env.st
		if env.cells != nil {
			cst = env.cells // old(x.f) means: the entry value of field f of what x denotes NOW
		}
		if v.A != nil {
			return e.loadAddr(cst, v.A), nil
		}
		pt := v.T.Underlying().(*types.Pointer)
		r := e.loadAt(cst, v.S, pt.Elem())
		r.NN = true
		return r, nil
	}
	if ty, ok := e.L.specs.GhostVars[name]; ok {
		if i := strings.Index(ty, "->"); i >= 0 {
			KT, err := e.L.resolveType(env.pkg, ty[:i])
			if err != nil {
				return Val{}, err
			}
			VT, err := e.L.resolveType(env.pkg, ty[i+2:])
			if err != nil {
				return Val{}, err
			}
			srt := arrSort(scalarSort(KT), scalarSort(VT))
			return Val{T: types.NewMap(KT, VT), S: e.heapGet(env.st, "X:"+name, srt), GhostArr: true}, nil
		}
		T, err := e.L.resolveType(env.pkg, ty)
		if err != nil {
			return Val{}, err
		}
		return Val{T: T, S: e.heapGet(env.st, "X:"+name, scalarSort(T))}, nil
	}
	if os.Getenv("GOVC_DBG") != "" {
		var ks []string
		for k := range env.vars {
			ks = append(ks, k)
		}
		fmt.Fprintln(os.Stderr, "evalIdent miss", name, ks)
	}
	if env.pkg != nil {
		return env.evalPkgMember(env.pkg, name)
	}
	return Val{}, fmt.Errorf("unknown identifier %q", name)
}

func (env *SpecEnv) evalPkgMember(p *types.Package, name string) (Val, error) {
	e := env.e
	obj := p.Scope().Lookup(name)
	switch o := obj.(type) {
	case *types.Const:
		if o.Val().Kind() == constant.Int {
			if isUntypedT(o.Type()) {
				return Val{T: tUntyped, S: o.Val().ExactString()}, nil
			}
			bi, _ := new(big.Int).SetString(o.Val().ExactString(), 10)
			w, _, _ := intInfo(o.Type())
			return Val{T: o.Type(), S: bvLit(w, bi)}, nil
		}
		if o.Val().Kind() == constant.String {
			return Val{T: tString, S: e.strLit(constant.StringVal(o.Val()))}, nil
		}
		if o.Val().Kind() == constant.Bool {
			return Val{T: tBool, S: fmt.Sprint(constant.BoolVal(o.Val()))}, nil
		}
	case *types.Var:
		T := o.Type()
		gname := p.Path() + "." + name
		if isAggregate(T) {
			g := sym("gref_" + gname)
			e.once("gref:"+g, func() {
				e.emit("(declare-const " + g + " Int)")
				e.assume(app("<", g, "0"))
				e.assume(mkEq(app("mod", g, fmt.Sprint(stride)), "0"))
			})
			return e.loadAt(env.st, g, T), nil
		}
		return e.loadAddr(env.st, &Addr{Kind: aGlobal, T: T, Key: "G:" + gname}), nil
	}
	return Val{}, fmt.Errorf("unknown identifier %q in package %s", name, p.Path())
}

func isUntypedT(t types.Type) bool {
	b, ok := t.(*types.Basic)
	return ok && b.Info()&types.IsUntyped != 0
}

func (env *SpecEnv) selectField(a Val, name string) (Val, error) {
	e := env.e
	// ghost field?
	if g, ok := e.L.specs.Ghosts[name]; ok {
		idx := a.leaves()
		if len(idx) != 1 {
			return Val{}, fmt.Errorf("ghost field owner must be scalar")
		}
		key := "X:" + name
		if i := strings.Index(g.Type, "->"); i >= 0 {
			// ghost map field: owner -> (K -> V)
			KT, err := e.L.resolveType(env.pkg, g.Type[:i])
			if err != nil {
				return Val{}, err
			}
			VT, err := e.L.resolveType(env.pkg, g.Type[i+2:])
			if err != nil {
				return Val{}, err
			}
			vs := arrSort(scalarSort(KT), scalarSort(VT))
			arr := e.heapGet(env.st, key, arrSort(scalarSort(a.T), vs))
			return Val{T: types.NewMap(KT, VT), S: sel(arr, idx[0]), GhostArr: true}, nil
		}
		T, err := e.L.resolveType(env.pkg, g.Type)
		if err != nil {
			return Val{}, err
		}
		srt := arrSort(scalarSort(a.T), scalarSort(T))
		arr := e.heapGet(env.st, key, srt)
		return Val{T: T, S: sel(arr, idx[0])}, nil
	}
	T := a.T
	obj, path, _ := types.LookupFieldOrMethod(T, true, env.pkgFor(T), name)
	fv, ok := obj.(*types.Var)
	if !ok || !fv.IsField() {
		return Val{}, fmt.Errorf("no field %q in %s", name, T)
	}
	cur := a
	for _, idx := range path {
		if pt, isPtr := cur.T.Underlying().(*types.Pointer); isPtr {
			ST := pt.Elem()
			cur = e.loadField(env.st, cur.S, ST, idx)
			cur.T = structOf(ST).Field(idx).Type()
			cur.NN = true
			if !reBound.MatchString(strings.Join(cur.leaves(), ",")) {
				e.assumeRefsOld(cur, e.pcNow, env.st.alloc)
			}
		} else if s := structOf(cur.T); s != nil {
			cur = cur.F[idx]
			cur.T = s.Field(idx).Type()
		} else {
			return Val{}, fmt.Errorf("cannot select %q from %s", name, cur.T)
		}
	}
	return cur, nil
}

func (env *SpecEnv) pkgFor(T types.Type) *types.Package {
	if pt, ok := T.Underlying().(*types.Pointer); ok {
		T = pt.Elem()
	}
	if n, ok := T.(*types.Named); ok && n.Obj().Pkg() != nil {
		return n.Obj().Pkg()
	}
	return env.pkg
}

func (env *SpecEnv) index(a, i Val) (Val, error) {
	e := env.e
	i, _ = env.coerce(i, tInt)
	if w, _, ok := intInfo(i.T); ok && w == 64 && i.S != "" && !reBound.MatchString(i.S) && !isLit(i.S) {
		e.noteIdx(i.S)
	}
	switch u := a.T.Underlying().(type) {
	case *types.Slice:
		idx := e.toBV64(i)
		if isAggregate(u.Elem()) {
			return e.loadAt(env.st, e.elemRef(u.Elem(), a.sBase(), bvAdd(a.sOff(), idx)), u.Elem()), nil
		}
		return e.loadAddr(env.st, &Addr{Kind: aElem, T: u.Elem(), Ref: a.sBase(), Idx: bvAdd(a.sOff(), idx), Key: "E:" + typeKey(u.Elem())}), nil
	case *types.Pointer:
		if arr, ok := u.Elem().Underlying().(*types.Array); ok {
			return env.index(e.loadAt(env.st, a.S, arr), i)
		}
	case *types.Array:
		idx := e.toBV64(i)
		var terms []string
		for _, f := range a.F {
			terms = append(terms, sel(f.S, idx))
		}
		return unflatten(u.Elem(), &terms), nil
	case *types.Basic:
		if scalarSort(a.T) == sStr {
			return Val{T: tByte, S: app("sat", a.S, e.toBV64(i))}, nil
		}
	case *types.Map:
		if a.GhostArr {
			k, err := env.coerce(i, u.Key())
			if err != nil {
				return Val{}, err
			}
			return Val{T: u.Elem(), S: sel(a.S, k.leaves()[0])}, nil
		}
		ks, ok := e.mapSorts(a.T)
		if !ok {
			return Val{}, fmt.Errorf("map with composite key")
		}
		k, err := env.coerce(i, u.Key())
		if err != nil {
			return Val{}, err
		}
		var terms []string
		for j, s := range leafSorts(u.Elem()) {
			arr := e.heapGet(env.st, fmt.Sprintf("M:%s.val#%d", typeKey(a.T), j), arrSort(sRef, arrSort(ks, s)))
			terms = append(terms, sel(sel(arr, a.S), k.leaves()[0]))
		}
		return unflatten(u.Elem(), &terms), nil
	}
	return Val{}, fmt.Errorf("cannot index %s", a.T)
}

func (env *SpecEnv) sliceOf(a Val, lo, hi *Val) (Val, error) {
	e := env.e
	zero := bvLitI(64, 0)
	switch a.T.Underlying().(type) {
	case *types.Slice:
		l, h := zero, a.sLen()
		if lo != nil {
			l = e.toBV64(*lo)
		}
		if hi != nil {
			h = e.toBV64(*hi)
		}
		return mkSlice(a.T, a.sBase(), bvAdd(a.sOff(), l), bvSub(h, l), bvSub(a.sCap(), l)), nil
	case *types.Basic:
		l, h := zero, app("slen", a.S)
		if lo != nil {
			l = e.toBV64(*lo)
		}
		if hi != nil {
			h = e.toBV64(*hi)
		}
		return Val{T: a.T, S: e.substr(a.S, l, h, "true")}, nil
	case *types.Pointer: // addr(x.f)[lo:hi] with f an array field
		pt := a.T.Underlying().(*types.Pointer)
		if arr, ok := pt.Elem().Underlying().(*types.Array); ok {
			n := bvLitI(64, arr.Len())
			l, h := zero, n
			if lo != nil {
				l = e.toBV64(*lo)
			}
			if hi != nil {
				h = e.toBV64(*hi)
			}
			v := mkSlice(types.NewSlice(arr.Elem()), a.S, l, bvSub(h, l), bvSub(n, l))
			v.NN = true
			return v, nil
		}
	}
	return Val{}, fmt.Errorf("cannot slice %s (for an array field write addr(x.f)[:])", a.T)
}

func (env *SpecEnv) evalBin(x *SExpr) (Val, error) {
	e := env.e
	op := x.Tok
	if op == "&&" || op == "||" || op == "==>" || op == "<==>" {
		a, err := env.evalBool(x.Args[0])
		if err != nil {
			return Val{}, err
		}
		// short circuit on a literally false left operand: the right one may mention a type of a
		// package that is not part of the program under analysis (typeis of it is false)
		if a == "false" && op == "&&" {
			return Val{T: tBool, S: "false"}, nil
		}
		if a == "false" && op == "==>" {
			return Val{T: tBool, S: "true"}, nil
		}
		if a == "true" && op == "||" {
			return Val{T: tBool, S: "true"}, nil
		}
		b, err := env.evalBool(x.Args[1])
		if err != nil {
			return Val{}, err
		}
		switch op {
		case "&&":
			return Val{T: tBool, S: mkAnd(a, b)}, nil
		case "||":
			return Val{T: tBool, S: mkOr(a, b)}, nil
		case "==>":
			return Val{T: tBool, S: mkImp(a, b)}, nil
		default:
			return Val{T: tBool, S: mkEq(a, b)}, nil
		}
	}
	a, err := env.eval(x.Args[0])
	if err != nil {
		return Val{}, err
	}
	b, err := env.eval(x.Args[1])
	if err != nil {
		return Val{}, err
	}
	// nil comparisons
	if isNilLit(a) || isNilLit(b) {
		if isNilLit(a) {
			a, b = b, a
		}
		var eq string
		switch {
		case kindOf(a.T) == kSlice:
			eq = mkEq(a.sBase(), "0")
		case scalarSort(a.T) == sIface:
			eq = mkEq(a.S, "inil")
		default:
			eq = mkEq(a.S, "0")
		}
		if op == "!=" {
			eq = mkNot(eq)
		} else if op != "==" {
			return Val{}, fmt.Errorf("bad nil comparison")
		}
		return Val{T: tBool, S: eq}, nil
	}
	if kindOf(a.T) == kSlice && kindOf(b.T) == kSlice && (op == "==" || op == "!=") {
		// identical slice values (same backing array, offset, length, capacity)
		var cs []string
		la, lb := a.leaves(), b.leaves()
		for i := range la {
			cs = append(cs, mkEq(la[i], lb[i]))
		}
		eq := mkAnd(cs...)
		if op == "!=" {
			eq = mkNot(eq)
		}
		return Val{T: tBool, S: eq}, nil
	}
	if isUntyped(a) && isUntyped(b) {
		x1, _ := new(big.Int).SetString(a.S, 10)
		y1, _ := new(big.Int).SetString(b.S, 10)
		r := new(big.Int)
		switch op {
		case "+":
			r.Add(x1, y1)
		case "-":
			r.Sub(x1, y1)
		case "*":
			r.Mul(x1, y1)
		case "<<":
			r.Lsh(x1, uint(y1.Int64()))
		case ">>":
			r.Rsh(x1, uint(y1.Int64()))
		case "/":
			r.Quo(x1, y1)
		case "|":
			r.Or(x1, y1)
		case "&":
			r.And(x1, y1)
		case "^":
			r.Xor(x1, y1)
		default:
			c := x1.Cmp(y1)
			res := false
			switch op {
			case "==":
				res = c == 0
			case "!=":
				res = c != 0
			case "<":
				res = c < 0
			case "<=":
				res = c <= 0
			case ">":
				res = c > 0
			case ">=":
				res = c >= 0
			default:
				return Val{}, fmt.Errorf("constant op %s", op)
			}
			return Val{T: tBool, S: fmt.Sprint(res)}, nil
		}
		return Val{T: tUntyped, S: r.String()}, nil
	}
	if isUntyped(a) {
		if op == "<<" || op == ">>" {
			a, _ = env.coerce(a, tInt)
		} else {
			a, err = env.coerce(a, b.T)
		}
	} else if isUntyped(b) {
		if op == "<<" || op == ">>" {
			b, _ = env.coerce(b, types.Typ[types.Uint])
		} else {
			b, err = env.coerce(b, a.T)
		}
	}
	if err != nil {
		return Val{}, err
	}
	tok, ok := tokOf[op]
	if !ok {
		return Val{}, fmt.Errorf("operator %s", op)
	}
	if !(op == "<<" || op == ">>") && kindOf(a.T) == kScalar && kindOf(b.T) == kScalar && scalarSort(a.T) != scalarSort(b.T) {
		return Val{}, fmt.Errorf("operands of %s have different sorts: %s (%s) vs %s (%s)", op, x.Args[0], a.T, x.Args[1], b.T)
	}
	fr := &Frame{e: e, pc: "true"}
	// contract arithmetic generates no obligations: evaluate with all kinds disabled
	r := fr.binop(nil, tok, a, b)
	return r, nil
}

func isNilLit(v Val) bool {
	b, ok := v.T.(*types.Basic)
	return ok && b.Kind() == types.UntypedNil
}

func (env *SpecEnv) evalCall(x *SExpr) (Val, error) {
	e := env.e
	callee := x.Args[0]
	args := x.Args[1:]
	if callee.Op == "id" {
		switch callee.Tok {
		case "old":
			c := env.child()
			if c.cells == nil {
				c.cells = env.st
			}
			c.st = env.old
			// inside old(), parameter names denote their values on entry even if the function
			// reassigns them (the loop variable p in `p = p[j+1:]` vs. the argument p)
			if env.topLevel {
				for k, v := range e.params {
					c.vars[k] = v
				}
			}
			return c.eval(args[0])
		case "len", "cap":
			a, err := env.eval(args[0])
			if err != nil {
				return Val{}, err
			}
			switch u := a.T.Underlying().(type) {
			case *types.Slice:
				if callee.Tok == "len" {
					return Val{T: tInt, S: a.sLen()}, nil
				}
				return Val{T: tInt, S: a.sCap()}, nil
			case *types.Basic:
				return Val{T: tInt, S: app("slen", a.S)}, nil
			case *types.Array:
				return Val{T: tInt, S: bvLitI(64, u.Len())}, nil
			}
			return Val{}, fmt.Errorf("len of %s", a.T)
		case "same":
			// extensional equality of two slices / slice and string
			a, err := env.eval(args[0])
			if err != nil {
				return Val{}, err
			}
			b, err := env.eval(args[1])
			if err != nil {
				return Val{}, err
			}
			return env.same(a, b)
		case "closed":
			// closed(ch): the channel has been closed (ghost set maintained at close())
			a, err := env.eval(args[0])
			if err != nil {
				return Val{}, err
			}
			srt := arrSort(sRef, sBool)
			e.keySort["X:chclosed"] = srt
			return Val{T: tBool, S: sel(e.heapGet(env.st, "X:chclosed", srt), a.S)}, nil
		case "addr":
			// address of an aggregate-typed field: addr(x.f)
			if args[0].Op != "sel" {
				return Val{}, fmt.Errorf("addr() needs a field selection")
			}
			o, err := env.eval(args[0].Args[0])
			if err != nil {
				return Val{}, err
			}
			pt, ok := o.T.Underlying().(*types.Pointer)
			if !ok {
				return Val{}, fmt.Errorf("addr(): owner is not a pointer")
			}
			obj, path, _ := types.LookupFieldOrMethod(o.T, true, env.pkgFor(o.T), args[0].Tok)
			fv, ok := obj.(*types.Var)
			if !ok || len(path) != 1 || !isAggregate(fv.Type()) {
				return Val{}, fmt.Errorf("addr(): %s is not a direct aggregate field", args[0])
			}
			return Val{T: types.NewPointer(fv.Type()), S: subRef(o.S, pt.Elem(), fv.Name()), NN: true}, nil
		case "list":
			a, err := env.eval(args[0])
			if err != nil {
				return Val{}, err
			}
			if kindOf(a.T) != kSlice || scalarSort(a.T.Underlying().(*types.Slice).Elem()) != sStr {
				return Val{}, fmt.Errorf("list() needs a []string")
			}
			return Val{T: listType, S: e.listOf(env.st, a, e.pcNow)}, nil
		case "snoc":
			l, err := env.eval(args[0])
			if err != nil {
				return Val{}, err
			}
			x, err := env.eval(args[1])
			if err != nil {
				return Val{}, err
			}
			return Val{T: listType, S: app("lsnoc", l.S, x.S)}, nil
		case "joinl":
			l, err := env.eval(args[0])
			if err != nil {
				return Val{}, err
			}
			x, err := env.eval(args[1])
			if err != nil {
				return Val{}, err
			}
			return Val{T: tString, S: app("joinl", l.S, x.S)}, nil
		case "ite":
			c, err := env.evalBool(args[0])
			if err != nil {
				return Val{}, err
			}
			a, err := env.eval(args[1])
			if err != nil {
				return Val{}, err
			}
			b, err := env.eval(args[2])
			if err != nil {
				return Val{}, err
			}
			if isUntyped(a) && isUntyped(b) {
				a, _ = env.coerce(a, tInt)
				b, _ = env.coerce(b, tInt)
			}
			if isUntyped(a) {
				a, _ = env.coerce(a, b.T)
			}
			if isUntyped(b) {
				b, _ = env.coerce(b, a.T)
			}
			if kindOf(a.T) != kScalar {
				return Val{}, fmt.Errorf("ite() of non-scalars")
			}
			return Val{T: a.T, S: mkIte(c, a.S, b.S)}, nil
		case "visited":
			// the map iteration of this loop has already delivered key k
			if env.rangeKey == "" {
				return Val{}, fmt.Errorf("visited() outside a loop that ranges over a map")
			}
			mt := env.rangeMap.Underlying().(*types.Map)
			ks, _ := e.mapSorts(env.rangeMap)
			k, err := env.eval(args[0])
			if err != nil {
				return Val{}, err
			}
			k, _ = env.coerce(k, mt.Key())
			return Val{T: tBool, S: sel(e.heapGet(env.st, env.rangeKey, arrSort(ks, sBool)), k.leaves()[0])}, nil
		case "haskey":
			m, err := env.eval(args[0])
			if err != nil {
				return Val{}, err
			}
			mt, ok := m.T.Underlying().(*types.Map)
			if !ok {
				return Val{}, fmt.Errorf("haskey() of non-map")
			}
			ks, ok := e.mapSorts(m.T)
			if !ok {
				return Val{}, fmt.Errorf("haskey(): composite key")
			}
			k, err := env.eval(args[1])
			if err != nil {
				return Val{}, err
			}
			k, _ = env.coerce(k, mt.Key())
			pres := sel(sel(e.heapGet(env.st, "M:"+typeKey(m.T)+".present", arrSort(sRef, arrSort(ks, sBool))), m.S), k.leaves()[0])
			return Val{T: tBool, S: mkAnd(mkNot(mkEq(m.S, "0")), pres)}, nil
		case "concat":
			a, err := env.eval(args[0])
			if err != nil {
				return Val{}, err
			}
			b, err := env.eval(args[1])
			if err != nil {
				return Val{}, err
			}
			return Val{T: tString, S: e.concat(a.S, b.S, "true")}, nil
		case "suffixof":
			// p is a suffix view of q: same backing array, same end, starts at or after q's start
			a, err := env.eval(args[0])
			if err != nil {
				return Val{}, err
			}
			b, err := env.eval(args[1])
			if err != nil {
				return Val{}, err
			}
			if kindOf(a.T) != kSlice || kindOf(b.T) != kSlice {
				return Val{}, fmt.Errorf("suffixof() of non-slices")
			}
			return Val{T: tBool, S: mkAnd(mkEq(a.sBase(), b.sBase()), mkEq(bvAdd(a.sOff(), a.sLen()), bvAdd(b.sOff(), b.sLen())),
				app("bvsle", b.sOff(), a.sOff()), app("bvsle", a.sLen(), b.sLen()))}, nil
		case "disjoint":
			// two slices do not share a backing array
			a, err := env.eval(args[0])
			if err != nil {
				return Val{}, err
			}
			b, err := env.eval(args[1])
			if err != nil {
				return Val{}, err
			}
			if kindOf(a.T) != kSlice || kindOf(b.T) != kSlice {
				return Val{}, fmt.Errorf("disjoint() of non-slices")
			}
			return Val{T: tBool, S: mkNot(mkEq(a.sBase(), b.sBase()))}, nil
		case "fresh":
			a, err := env.eval(args[0])
			if err != nil {
				return Val{}, err
			}
			ref := a.S
			if kindOf(a.T) == kSlice {
				ref = a.sBase()
			}
			return Val{T: tBool, S: app(">", ref, env.old.alloc)}, nil
		case "sincelastcall":
			// sincelastcall(x), in a callpre clause: the object (or backing array) x was allocated after the previous
			// call of the same callee made by this function (after its entry, if there was none): the callee is
			// handed an object of its own each time, never one a previous call already filled
			a, err := env.eval(args[0])
			if err != nil {
				return Val{}, err
			}
			ref := a.S
			if kindOf(a.T) == kSlice {
				ref = a.sBase()
			}
			if _, isI := a.T.Underlying().(*types.Interface); isI {
				ref = app("iref", a.S) // the object an interface value points to
			}
			if env.callName == "" {
				return Val{}, fmt.Errorf("sincelastcall outside a callpre clause")
			}
			key := "X:lastcallalloc:" + env.callName
			e.keySort[key] = sRef
			mark := e.heapGet(env.st, key, sRef)
			e.assume(app(">=", mark, "alloc0"))
			if e.entry != nil {
				e.assume(mkEq(e.heapGet(e.entry, key, sRef), "alloc0")) // no such call yet at entry
			}
			return Val{T: tBool, S: app(">", ref, mark)}, nil
		case "sincelastsend":
			// sincelastsend(x): the object (or the backing array of the slice) x was allocated after the
			// previous channel send of this function (after its entry, if there was none): a buffer handed to
			// a channel is not handed to it again
			a, err := env.eval(args[0])
			if err != nil {
				return Val{}, err
			}
			ref := a.S
			if kindOf(a.T) == kSlice {
				ref = a.sBase()
			}
			e.keySort["X:lastsendalloc"] = sRef
			mark := e.heapGet(env.st, "X:lastsendalloc", sRef)
			// the mark is an earlier allocation bound, never below the entry's (at a loop head the engine also
			// assumes that it is not above the bound reached there)
			e.assume(app(">=", mark, "alloc0"))
			if e.entry != nil {
				e.assume(mkEq(e.heapGet(e.entry, "X:lastsendalloc", sRef), "alloc0")) // no send yet at entry
			}
			return Val{T: tBool, S: app(">", ref, mark)}, nil
		case "implements":
			// implements(x, I): the dynamic type of the interface value x implements interface I (the
			// predicate a comma-ok assertion x.(I) tests)
			a, err := env.eval(args[0])
			if err != nil {
				return Val{}, err
			}
			T, err := env.resolveType(args[1].String())
			if err != nil {
				return Val{}, err
			}
			it, isIface := T.Underlying().(*types.Interface)
			if !isIface {
				return Val{}, fmt.Errorf("implements(x, T): T is not an interface type")
			}
			if a.Dyn != nil {
				return Val{T: tBool, S: fmt.Sprint(types.Implements(a.Dyn, it))}, nil
			}
			name := sym("implements_" + typeKey(T))
			e.once("impl:"+name, func() { e.emit("(declare-fun " + name + " (Int) Bool)"); e.assume(mkNot(app(name, "0"))) })
			return Val{T: tBool, S: app(name, app("itype", a.S))}, nil
		case "typeis":
			a, err := env.eval(args[0])
			if err != nil {
				return Val{}, err
			}
			T, err := env.resolveType(args[1].String())
			if err != nil {
				if strings.HasPrefix(err.Error(), "unknown package in type") {
					// the type's package is not part of the program under analysis: no value has that type
					return Val{T: tBool, S: "false"}, nil
				}
				return Val{}, err
			}
			if a.Dyn != nil {
				return Val{T: tBool, S: fmt.Sprint(types.Identical(a.Dyn, T))}, nil
			}
			return Val{T: tBool, S: mkEq(app("itype", a.S), e.typeTag(T))}, nil
		case "unbox":
			a, err := env.eval(args[0])
			if err != nil {
				return Val{}, err
			}
			T, err := env.resolveType(args[1].String())
			if err != nil {
				return Val{}, err
			}
			r := e.unbox(a, T)
			r.T = T
			return r, nil
		case "str":
			a, err := env.eval(args[0])
			if err != nil {
				return Val{}, err
			}
			if kindOf(a.T) != kSlice {
				return Val{}, fmt.Errorf("str() of %s", a.T)
			}
			return Val{T: tString, S: e.strOfBytes(env.st, a, "true")}, nil
		}
		if callee.Tok == "lnil" && len(args) == 0 {
			return Val{T: listType, S: "lnil"}, nil
		}
		if fd := e.L.specs.Folds[callee.Tok]; fd != nil {
			return env.applyFold(fd, args)
		}
		// spec function?
		if sf := e.L.lookupSpecFn(env.pkg, callee.Tok); sf != nil {
			return env.applySpecFn(sf, args)
		}
		// uninterpreted function?
		if uf := e.L.specs.UFs[callee.Tok]; uf != nil {
			return env.applyUF(uf, args)
		}
		// conversion?
		if T, err := env.resolveType(callee.Tok); err == nil && len(args) == 1 {
			a, err := env.eval(args[0])
			if err != nil {
				return Val{}, err
			}
			return env.convert(a, T)
		}
	}
	if callee.Op == "sel" && callee.Args[0].Op == "id" {
		// pkg.Type(x) conversion or pkg.specfn(...)
		if p := e.L.importedPkg(env.pkg, callee.Args[0].Tok); p != nil {
			if sf := e.L.specs.SpecFns[p.Path()+"."+callee.Tok]; sf != nil {
				return env.applySpecFn(sf, args)
			}
			if T, err := env.resolveType(callee.String()); err == nil && len(args) == 1 {
				a, err := env.eval(args[0])
				if err != nil {
					return Val{}, err
				}
				return env.convert(a, T)
			}
		}
	}
	return Val{}, fmt.Errorf("cannot evaluate call %s", x)
}

func (env *SpecEnv) convert(a Val, T types.Type) (Val, error) {
	if isUntyped(a) {
		return env.coerce(a, T)
	}
	fw, fs, fi := intInfo(a.T)
	tw, _, ti := intInfo(T)
	if fi && ti {
		return Val{T: T, S: resizeBV(a.S, fw, fs, tw)}, nil
	}
	if kindOf(a.T) == kSlice && scalarSort(T) == sStr && kindOf(T) == kScalar {
		return Val{T: T, S: env.e.strOfBytes(env.st, a, "true")}, nil
	}
	if types.Identical(a.T.Underlying(), T.Underlying()) {
		a.T = T
		return a, nil
	}
	if _, isIface := T.Underlying().(*types.Interface); isIface {
		if _, already := a.T.Underlying().(*types.Interface); already {
			a.T = T
			return a, nil
		}
		return env.e.boxTerm(a, T), nil
	}
	return Val{}, fmt.Errorf("conversion %s -> %s", a.T, T)
}

func (env *SpecEnv) same(a, b Val) (Val, error) {
	e := env.e
	at := func(v Val) (func(i string) string, string, error) {
		switch {
		case kindOf(v.T) == kSlice:
			el := v.T.Underlying().(*types.Slice).Elem()
			if isAggregate(el) || len(leafSorts(el)) != 1 {
				return nil, "", fmt.Errorf("same(): element type %s", el)
			}
			arr := e.heapGet(env.st, elemKey(el, 0), arrSort(sRef, arrSort(sBV64, leafSorts(el)[0])))
			// NB: which state? the one of the enclosing old()/current context
			return func(i string) string { return sel(sel(arr, v.sBase()), bvAdd(v.sOff(), i)) }, v.sLen(), nil
		case scalarSort(v.T) == sStr:
			return func(i string) string { return app("sat", v.S, i) }, app("slen", v.S), nil
		}
		return nil, "", fmt.Errorf("same(): %s", v.T)
	}
	fa, la, err := at(a)
	if err != nil {
		return Val{}, err
	}
	fb, lb, err := at(b)
	if err != nil {
		return Val{}, err
	}
	e.nf++
	i := sym(fmt.Sprintf("q_i!%d", e.nf))
	body := mkImp(mkAnd(app("bvsle", bvLitI(64, 0), i), app("bvslt", i, la)), mkEq(fa(i), fb(i)))
	return Val{T: tBool, S: mkAnd(mkEq(la, lb), "(forall (("+i+" (_ BitVec 64))) "+body+")")}, nil
}

func (env *SpecEnv) applySpecFn(sf *SpecFn, args []*SExpr) (Val, error) {
	if env.depth > 40 {
		return Val{}, fmt.Errorf("spec function recursion too deep: %s", sf.Name)
	}
	if len(args) != len(sf.Params) {
		return Val{}, fmt.Errorf("%s: %d arguments expected", sf.Name, len(sf.Params))
	}
	c := &SpecEnv{e: env.e, pkg: env.pkg, vars: map[string]Val{}, st: env.st, old: env.old, depth: env.depth + 1}
	if p := env.e.L.pkgByPath(sf.Pkg); p != nil {
		c.pkg = p
	}
	for i, p := range sf.Params {
		a, err := env.eval(args[i])
		if err != nil {
			return Val{}, err
		}
		T, err := c.resolveType(p.Type)
		if err != nil {
			return Val{}, err
		}
		if isUntyped(a) {
			a, err = env.coerce(a, T)
			if err != nil {
				return Val{}, err
			}
		}
		if isNilLit(a) {
			a = zeroVal(T)
		}
		a.T = T
		c.vars[p.Name] = a
	}
	r, err := c.eval(sf.Body)
	if err != nil {
		return Val{}, fmt.Errorf("in spec %s: %v", sf.Name, err)
	}
	if sf.Ret != "" {
		if T, err := c.resolveType(sf.Ret); err == nil {
			r, _ = c.coerce(r, T)
		}
	}
	return r, nil
}

var tokOf map[string]tokenT

// havocLoc: havoc the heap location denoted by an lvalue expression (modifies clause).
func (env *SpecEnv) havocLoc(x *SExpr, st *State) error {
	e := env.e
	if x.Op == "call" && x.Args[0].Op == "id" && x.Args[0].Tok == "ghost" && len(x.Args) == 2 {
		// all cells of a ghost field
		k := "X:" + x.Args[1].String()
		if srt, known := e.keySort[k]; known {
			st.heap[k] = e.fresh("Hmod_"+k, srt)
		} else {
			e.pendingHavoc(st, k)
		}
		return nil
	}
	if x.Op == "call" && x.Args[0].Op == "id" && x.Args[0].Tok == "entries" && len(x.Args) == 2 {
		// all entries of one map
		m, err := env.eval(x.Args[1])
		if err != nil {
			return err
		}
		for _, k := range mapKeys(m.T) {
			if srt, known := e.keySort[k]; known {
				arr := e.heapGet(st, k, srt)
				_, inner := splitArrSort(srt)
				e.heapSet(st, k, srt, sto(arr, m.S, e.fresh("mod_map", inner)))
			}
		}
		return nil
	}
	if T, ok := env.typeClause(x); ok {
		// every field of every object of type T
		for _, k := range e.keysOfType(T, false) {
			if srt, known := e.keySort[k]; known {
				st.heap[k] = e.fresh("Hmod_"+k, srt)
			} else {
				e.pendingHavoc(st, k)
			}
		}
		return nil
	}
	if x.Op == "id" {
		if ty, ok := e.L.specs.GhostVars[x.Tok]; ok {
			v, err := env.evalIdent(x.Tok) // registers the key's sort
			if err != nil {
				return err
			}
			_ = v
			srt := e.keySort["X:"+x.Tok]
			_ = ty
			e.heapSet(st, "X:"+x.Tok, srt, e.fresh("ghost_"+x.Tok, srt))
			return nil
		}
	}
	switch x.Op {
	case "sel":
		if g0, ok := e.L.specs.Ghosts[x.Tok]; ok && !strings.Contains(g0.Type, "->") {
			a, err := env.eval(x.Args[0])
			if err != nil {
				return err
			}
			g := e.L.specs.Ghosts[x.Tok]
			T, err := e.L.resolveType(env.pkg, g.Type)
			if err != nil {
				return err
			}
			key := "X:" + x.Tok
			srt := arrSort(scalarSort(a.T), scalarSort(T))
			arr := e.heapGet(st, key, srt)
			e.heapSet(st, key, srt, sto(arr, a.leaves()[0], e.fresh("ghost_"+x.Tok, scalarSort(T))))
			return nil
		}
		if g, ok := e.L.specs.Ghosts[x.Tok]; ok && strings.Contains(g.Type, "->") {
			v, err := env.eval(x)
			if err != nil {
				return err
			}
			a, _ := env.eval(x.Args[0])
			key := "X:" + x.Tok
			srt := e.keySort[key]
			arr := e.heapGet(st, key, srt)
			_, vs := splitArrSort(srt)
			e.heapSet(st, key, srt, sto(arr, a.leaves()[0], e.fresh("ghost_"+x.Tok, vs)))
			_ = v
			return nil
		}
		a, err := env.eval(x.Args[0])
		if err != nil {
			return err
		}
		pt, ok := a.T.Underlying().(*types.Pointer)
		if !ok {
			return fmt.Errorf("modifies %s: owner is not a pointer", x)
		}
		obj, path, _ := types.LookupFieldOrMethod(a.T, true, env.pkgFor(a.T), x.Tok)
		fv, ok := obj.(*types.Var)
		if !ok || len(path) != 1 {
			return fmt.Errorf("modifies %s: no direct field", x)
		}
		ST := pt.Elem()
		nv := e.freshVal(fv.Type(), "mod_"+x.Tok, "true")
		e.storeField(st, a.S, ST, path[0], nv)
		return nil
	case "idx", "slice":
		// s[*] written as s[0] or s[:]: the whole backing array of s
		a, err := env.eval(x.Args[0])
		if err != nil {
			return err
		}
		if kindOf(a.T) != kSlice {
			return fmt.Errorf("modifies %s: not a slice", x)
		}
		el := a.T.Underlying().(*types.Slice).Elem()
		if x.Op == "slice" && (x.Args[1] != nil || x.Args[2] != nil) {
			// s[lo:hi] with explicit bounds: exactly the elements of that range; the rest of the backing
			// array is kept. (s[:] and s[i] stand for the whole backing array.)
			a, err = env.eval(x)
			if err != nil {
				return err
			}
			lo, hi := a.sOff(), bvAdd(a.sOff(), a.sLen())
			for k, s := range leafSorts(el) {
				key := elemKey(el, k)
				srt := arrSort(sRef, arrSort(sBV64, s))
				arr := e.heapGet(st, key, srt)
				oldIn := sel(arr, a.sBase())
				m := e.fresh("mod_elems", arrSort(sBV64, s))
				e.nf++
				i := fmt.Sprintf("i!r%d", e.nf)
				e.assume(fmt.Sprintf("(forall ((%s (_ BitVec 64))) (! (=> (not (and (bvsle %s %s) (bvslt %s %s))) (= (select %s %s) (select %s %s))) :pattern ((select %s %s))))", i, lo, i, i, hi, m, i, oldIn, i, m, i))
				e.heapSet(st, key, srt, sto(arr, a.sBase(), m))
				if k == 0 && s == bvSort(8) {
					// strings taken earlier from other ranges of the same array are unchanged
					for _, r := range e.sfromReg {
						disj := mkOr(app("bvsle", bvAdd(r.off, r.ln), lo), app("bvsle", hi, r.off))
						e.assume(mkImp(mkAnd(mkEq(r.base, a.sBase()), disj), mkEq(app("sfrom", m, r.off, r.ln), app("sfrom", oldIn, r.off, r.ln))))
					}
				}
			}
			return nil
		}
		for k, s := range leafSorts(el) {
			key := elemKey(el, k)
			srt := arrSort(sRef, arrSort(sBV64, s))
			arr := e.heapGet(st, key, srt)
			e.heapSet(st, key, srt, sto(arr, a.sBase(), e.fresh("mod_elems", arrSort(sBV64, s))))
		}
		return nil
	case "un":
		if x.Tok == "*" {
			if x.Args[0].Op == "id" {
				// *name for a captured or address-taken variable: its cell
				if c, ok := env.vars["&"+x.Args[0].Tok]; ok && c.A == nil {
					if pt, ok := c.T.Underlying().(*types.Pointer); ok {
						nv := e.freshVal(pt.Elem(), "mod_cell", "true")
						e.storeAt(st, c.S, pt.Elem(), nv)
						return nil
					}
				}
			}
			a, err := env.eval(x.Args[0])
			if err != nil {
				return err
			}
			pt, ok := a.T.Underlying().(*types.Pointer)
			if !ok {
				return fmt.Errorf("modifies %s", x)
			}
			nv := e.freshVal(pt.Elem(), "mod_obj", "true")
			e.storeAt(st, a.S, pt.Elem(), nv)
			return nil
		}
	}
	return fmt.Errorf("unsupported modifies location %s", x)
}

// typeClause recognises the modifies form type(T): all fields of all objects of struct type T.
func (env *SpecEnv) typeClause(x *SExpr) (types.Type, bool) {
	if x.Op == "call" && x.Args[0].Op == "id" && x.Args[0].Tok == "type" && len(x.Args) == 2 {
		T, err := env.resolveType(x.Args[1].String())
		if err == nil {
			return T, true
		}
	}
	return nil, false
}

func (e *Exec) keysOfModClause(callee *ssa.Function, m Clause, argT ...types.Type) []string {
	e.argTypes = argT
	// static approximation used for loop havoc: derive keys from the field name / type
	x := m.E
	if x.Op == "call" && x.Args[0].Op == "id" && x.Args[0].Tok == "ghost" && len(x.Args) == 2 {
		return []string{"X:" + x.Args[1].String()}
	}
	if x.Op == "id" {
		if _, ok := e.L.specs.GhostVars[x.Tok]; ok {
			return []string{"X:" + x.Tok}
		}
	}
	if x.Op == "call" && x.Args[0].Op == "id" && x.Args[0].Tok == "type" && len(x.Args) == 2 && callee != nil && pkgOf(callee) != nil {
		if T, err := e.L.resolveType(pkgOf(callee).Pkg, x.Args[1].String()); err == nil {
			return e.keysOfType(T, false)
		}
		return []string{"*"}
	}
	switch x.Op {
	case "sel":
		if _, ok := e.L.specs.Ghosts[x.Tok]; ok {
			return []string{"X:" + x.Tok}
		}
		// find the owner's type from the callee's parameters
		T := e.staticTypeOf(callee, x.Args[0])
		if T == nil {
			return []string{"*"}
		}
		pt, ok := T.Underlying().(*types.Pointer)
		if !ok {
			return []string{"*"}
		}
		var cpkg *types.Package
		if callee != nil && callee.Pkg != nil {
			cpkg = callee.Pkg.Pkg
		}
		obj, path, _ := types.LookupFieldOrMethod(T, true, cpkg, x.Tok)
		fv, ok := obj.(*types.Var)
		if !ok || len(path) != 1 {
			return []string{"*"}
		}
		return e.keysOfStorage(pt.Elem(), fv.Name(), fv.Type())
	case "idx", "slice":
		T := e.staticTypeOf(callee, x.Args[0])
		if T == nil {
			return []string{"*"}
		}
		if sl, ok := T.Underlying().(*types.Slice); ok {
			return e.keysOfType(sl.Elem(), true)
		}
	case "un":
		T := e.staticTypeOf(callee, x.Args[0])
		if T != nil {
			if pt, ok := T.Underlying().(*types.Pointer); ok {
				return e.keysOfType(pt.Elem(), false)
			}
		}
	}
	return []string{"*"}
}

func (e *Exec) staticTypeOf(fn *ssa.Function, x *SExpr) types.Type {
	if fn == nil {
		// interface-method / function-type contract: recv|fn = argTypes[0], aN = argTypes[N]
		if x.Op == "id" && len(e.argTypes) > 0 {
			if x.Tok == "recv" || x.Tok == "fn" {
				return e.argTypes[0]
			}
			if strings.HasPrefix(x.Tok, "a") {
				var n int
				if _, err := fmt.Sscanf(x.Tok, "a%d", &n); err == nil {
					if e.argFT {
						n++
					}
					if n < len(e.argTypes) {
						return e.argTypes[n]
					}
				}
			}
		}
		return nil
	}
	switch x.Op {
	case "id":
		for _, p := range fn.Params {
			if p.Name() == x.Tok {
				return p.Type()
			}
		}
		for _, fv := range fn.FreeVars {
			if fv.Name() == x.Tok {
				return fv.Type().Underlying().(*types.Pointer).Elem()
			}
		}
	case "sel":
		T := e.staticTypeOf(fn, x.Args[0])
		if T == nil {
			return nil
		}
		obj, _, _ := types.LookupFieldOrMethod(T, true, fn.Pkg.Pkg, x.Tok)
		if fv, ok := obj.(*types.Var); ok {
			return fv.Type()
		}
	}
	return nil
}

// applyFold: fold_NAME(arr, off, n, params...) with its base case and one unfolding step stated
// for exactly this occurrence (the generator instantiates the step axiom itself; no solver-side
// induction or quantified recursion is needed).
func (env *SpecEnv) applyFold(fd *FoldDecl, args []*SExpr) (Val, error) {
	e := env.e
	if len(args) != len(fd.Params) {
		return Val{}, fmt.Errorf("fold %s: %d arguments expected", fd.Name, len(fd.Params))
	}
	sl, err := env.eval(args[0])
	if err != nil {
		return Val{}, err
	}
	if kindOf(sl.T) != kSlice {
		return Val{}, fmt.Errorf("fold %s: first argument must be a slice", fd.Name)
	}
	el := sl.T.Underlying().(*types.Slice).Elem()
	if isAggregate(el) || len(leafSorts(el)) != 1 {
		return Val{}, fmt.Errorf("fold %s: element type %s", fd.Name, el)
	}
	es := leafSorts(el)[0]
	arr := sel(e.heapGet(env.st, elemKey(el, 0), arrSort(sRef, arrSort(sBV64, es))), sl.sBase())
	var ps []Val
	sorts := []string{arrSort(sBV64, es), sBV64, sBV64}
	pkg := env.pkg
	if p := e.L.pkgByPath(fd.Pkg); p != nil {
		pkg = p
	}
	for i, a := range args[1:] {
		v, err := env.eval(a)
		if err != nil {
			return Val{}, err
		}
		T, err := e.L.resolveType(pkg, fd.Params[i+1].Type)
		if err != nil {
			return Val{}, err
		}
		v, _ = env.coerce(v, T)
		v.T = T
		if kindOf(T) != kScalar {
			return Val{}, fmt.Errorf("fold %s: parameter %s must be scalar", fd.Name, fd.Params[i+1].Name)
		}
		ps = append(ps, v)
		sorts = append(sorts, scalarSort(T))
	}
	fname := sym("fold_" + fd.Name + "_" + typeKey(el))
	e.once("folddecl:"+fname, func() {
		e.emit("(declare-fun " + fname + " (" + strings.Join(sorts, " ") + ") Lst)")
	})
	mk := func(n string) string {
		as := []string{arr, sl.sOff(), n}
		for _, p := range ps {
			as = append(as, p.S)
		}
		return app(fname, as...)
	}
	n := sl.sLen()
	t := mk(n)
	if reBound.MatchString(t) {
		return Val{T: listType, S: t}, nil
	}
	var stepErr error
	e.once("fold:"+e.pcNow+":"+t, func() {
		n1 := bvSub(n, bvLitI(64, 1))
		c := &SpecEnv{e: e, pkg: pkg, vars: map[string]Val{}, st: env.st, old: env.old, depth: env.depth + 1}
		c.vars[fd.Acc] = Val{T: listType, S: mk(n1)}
		c.vars[fd.Elem] = Val{T: el, S: sel(arr, bvAdd(sl.sOff(), n1))}
		for i, p := range ps {
			c.vars[fd.Params[i+1].Name] = p
		}
		sv, err := c.eval(fd.Step)
		if err != nil {
			stepErr = err
			return
		}
		e.assume(mkImp(e.pcNow, mkAnd(
			mkImp(mkEq(n, bvLitI(64, 0)), mkEq(t, "lnil")),
			mkImp(app("bvsgt", n, bvLitI(64, 0)), mkEq(t, sv.S)))))
	})
	if stepErr != nil {
		return Val{}, fmt.Errorf("fold %s: %v", fd.Name, stepErr)
	}
	return Val{T: listType, S: t}, nil
}

// selectPatterns: the (select A I) subterms of t whose index I mentions the bound variable q
// while A does not (candidate triggers).
func selectPatterns(t, q string) []string {
	seen := map[string]bool{}
	var out []string
	for i := 0; i+8 <= len(t); i++ {
		if !strings.HasPrefix(t[i:], "(select ") {
			continue
		}
		// find the matching close
		depth, j := 0, i
		inq := false
		for ; j < len(t); j++ {
			c := t[j]
			if c == '|' {
				inq = !inq
			}
			if inq {
				continue
			}
			if c == '(' {
				depth++
			} else if c == ')' {
				depth--
				if depth == 0 {
					break
				}
			}
		}
		if j >= len(t) {
			continue
		}
		term := t[i : j+1]
		parts := splitArgs(term[len("(select ") : len(term)-1])
		if len(parts) != 2 {
			continue
		}
		clean := true
		for _, bad := range []string{"(ite ", "(and ", "(or ", "(not ", "(=> ", "(= ", "(forall", "(exists", "(bvsle ", "(bvslt ", "(bvule ", "(bvult ", "(<= ", "(< ", "(> ", "(>= "} {
			if strings.Contains(term, bad) {
				clean = false
			}
		}
		if clean && strings.Contains(parts[1], q) && !strings.Contains(parts[0], q) && !seen[term] {
			seen[term] = true
			out = append(out, term)
		}
	}
	return out
}

// instantiateForalls: replace every single-variable BV64 universal quantifier in t by its body with
// the bound variable substituted by idx (generation-time instantiation: solvers normalise bit-vector
// arithmetic in ground terms, which defeats syntactic trigger matching).
func instantiateForalls(t, idx string) (string, bool) {
	changed := false
	for guard := 0; guard < 8; guard++ {
		i := strings.Index(t, "(forall ((q_")
		if i < 0 {
			break
		}
		// binder list
		j := i + len("(forall (")
		depth, k := 0, j
		for ; k < len(t); k++ {
			if t[k] == '(' {
				depth++
			} else if t[k] == ')' {
				depth--
				if depth < 0 {
					break
				}
			}
		}
		binders := t[j:k] // e.g. (q_i!38 (_ BitVec 64))
		parts := splitArgs(binders)
		if len(parts) != 1 || !strings.HasSuffix(parts[0], "(_ BitVec 64))") {
			return t, false
		}
		q := strings.Fields(parts[0][1:])[0]
		// whole quantifier expression
		depth = 0
		endq := i
		for ; endq < len(t); endq++ {
			if t[endq] == '(' {
				depth++
			} else if t[endq] == ')' {
				depth--
				if depth == 0 {
					break
				}
			}
		}
		inner := strings.TrimSpace(t[k+1 : endq])
		if strings.HasPrefix(inner, "(! ") {
			ps := splitArgs(inner[3 : len(inner)-1])
			inner = ps[0]
		}
		inst := strings.ReplaceAll(inner, q, idx)
		t = t[:i] + inst + t[endq+1:]
		changed = true
	}
	if strings.Contains(t, "(forall") || strings.Contains(t, "(exists") {
		return t, false
	}
	return t, changed
}

// replaceSym replaces the symbol old (at token boundaries) by new.
func replaceSym(t, old, new string) string {
	var sb strings.Builder
	for i := 0; i < len(t); {
		j := strings.Index(t[i:], old)
		if j < 0 {
			sb.WriteString(t[i:])
			break
		}
		j += i
		end := j + len(old)
		isSymCh := func(c byte) bool {
			return c >= 'a' && c <= 'z' || c >= 'A' && c <= 'Z' || c >= '0' && c <= '9' || c == '_' || c == '!' || c == '.' || c == '$'
		}
		if (j > 0 && isSymCh(t[j-1])) || (end < len(t) && isSymCh(t[end])) {
			sb.WriteString(t[i:end])
			i = end
			continue
		}
		sb.WriteString(t[i:j])
		sb.WriteString(new)
		i = end
	}
	return sb.String()
}

// reindexTwins: for every universal of the shape
//
//	(forall ((q BV64)) (! BODY :pattern ((select A (bvadd OFF q))) ...))
//
// in an ASSUMED formula, add the equivalent universal over the absolute index r = OFF + q,
//
//	(forall ((r BV64)) (! BODY[q := r - OFF] :pattern ((select A r)) ...)),
//
// whose trigger matches every read of A. Solvers flatten bit-vector sums in ground terms, so the
// relative trigger (bvadd OFF q) is missed for reads at OFF + i + 1 and the like. The twin is
// equivalent to the original (q -> OFF + q is a bijection on 64-bit vectors).
func reindexTwins(c string) string {
	pos := 0
	for guard := 0; guard < 16; guard++ {
		k := strings.Index(c[pos:], "(forall ((q_")
		if k < 0 {
			break
		}
		i := pos + k
		j := i + len("(forall (")
		depth, b := 0, j
		for ; b < len(c); b++ {
			if c[b] == '(' {
				depth++
			} else if c[b] == ')' {
				depth--
				if depth < 0 {
					break
				}
			}
		}
		binders := splitArgs(c[j:b])
		depth = 0
		endq := i
		for ; endq < len(c); endq++ {
			if c[endq] == '(' {
				depth++
			} else if c[endq] == ')' {
				depth--
				if depth == 0 {
					break
				}
			}
		}
		pos = endq + 1
		if len(binders) != 1 || !strings.HasSuffix(binders[0], "(_ BitVec 64))") || endq >= len(c) {
			continue
		}
		q := strings.Fields(binders[0][1:])[0]
		inner := strings.TrimSpace(c[b+1 : endq])
		if !strings.HasPrefix(inner, "(! ") {
			continue
		}
		ps := splitArgs(inner[3 : len(inner)-1])
		if len(ps) < 3 {
			continue
		}
		body := ps[0]
		off := ""
		var arrs []string
		ok := true
		for x := 1; x+1 < len(ps); x += 2 {
			if ps[x] != ":pattern" {
				ok = false
				break
			}
			p := strings.TrimSpace(ps[x+1])
			p = strings.TrimSpace(p[1 : len(p)-1])
			if !strings.HasPrefix(p, "(select ") {
				ok = false
				break
			}
			sa := splitArgs(p[len("(select ") : len(p)-1])
			if len(sa) != 2 || !strings.HasPrefix(sa[1], "(bvadd ") {
				ok = false
				break
			}
			ba := splitArgs(sa[1][len("(bvadd ") : len(sa[1])-1])
			if len(ba) != 2 || ba[1] != q || strings.Contains(ba[0], q) || (off != "" && off != ba[0]) {
				ok = false
				break
			}
			off = ba[0]
			arrs = append(arrs, sa[0])
		}
		if !ok || off == "" {
			continue
		}
		r := "r" + q
		nb := strings.ReplaceAll(body, "(bvadd "+off+" "+q+")", r)
		nb = replaceSym(nb, q, "(bvsub "+r+" "+off+")")
		var np []string
		seen := map[string]bool{}
		for _, a := range arrs {
			if !seen[a] {
				seen[a] = true
				np = append(np, ":pattern ((select "+a+" "+r+"))")
			}
		}
		twin := "(forall ((" + r + " (_ BitVec 64))) (! " + nb + " " + strings.Join(np, " ") + "))"
		repl := "(and " + c[i:endq+1] + " " + twin + ")"
		c = c[:i] + repl + c[endq+1:]
		pos = i + len(repl)
	}
	return c
}

func paramNames(fn *ssa.Function) map[string]bool {
	m := map[string]bool{}
	for _, p := range fn.Params {
		m[p.Name()] = true
	}
	return m
}
