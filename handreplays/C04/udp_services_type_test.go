package server

// Hand replay for services.(*dnsService).Handle/post/datagram-reported and services.(*echoService).Handle
// (property C04): the server hands every connection to Handle wrapped in its timeout connection
// (server/honeytrap.go: newConn = TimeoutConn(newConn, ...)), so the services' tests on the concrete
// type (*listener.DummyUDPConn, *net.TCPConn) never succeed: a DNS query sent to the configured dns
// service is neither decoded nor reported ("Unsupported connection type"), and a datagram sent to the
// echo service is echoed without the event that the datagram branch records.

import (
	"net"
	"testing"

	"github.com/honeytrap/honeytrap/event"
	"github.com/honeytrap/honeytrap/listener"
	"github.com/honeytrap/honeytrap/pushers/eventbus"
	"github.com/honeytrap/honeytrap/services"
)

type handCapture struct{ evs []event.Event }

func (c *handCapture) Send(e event.Event) { c.evs = append(c.evs, e) }

func (c *handCapture) count(category string) int {
	n := 0
	for _, e := range c.evs {
		if e.Get("category") == category {
			n++
		}
	}
	return n
}

func handServe(t *testing.T, name string, svc services.Servicer, port int, datagram []byte) (replies [][]byte) {
	t.Helper()
	laddr := &net.UDPAddr{IP: net.IPv4(127, 0, 0, 1), Port: port}
	hc := &Honeytrap{
		bus:   eventbus.New(),
		ports: map[net.Addr][]*ServiceMap{laddr: {{Service: svc, Name: name, Type: name}}},
	}
	conn := &listener.DummyUDPConn{
		Buffer: datagram,
		Laddr:  laddr,
		Raddr:  &net.UDPAddr{IP: net.IPv4(10, 1, 2, 3), Port: 40000},
		Fn: func(b []byte, addr *net.UDPAddr) (int, error) {
			replies = append(replies, append([]byte(nil), b...))
			return len(b), nil
		},
	}
	hc.handle(conn)
	return replies
}

// a DNS query for example.com, type A
var handQuery = []byte{0x12, 0x34, 0x01, 0x00, 0x00, 0x01, 0x00, 0x00, 0x00, 0x00, 0x00, 0x00,
	7, 'e', 'x', 'a', 'm', 'p', 'l', 'e', 3, 'c', 'o', 'm', 0, 0x00, 0x01, 0x00, 0x01}

func TestHandDNSDatagramReported(t *testing.T) {
	c := &handCapture{}
	handServe(t, "dns", services.DNS(services.WithChannel(c)), 53, handQuery)
	if n := c.count("dns"); n != 1 {
		t.Fatalf("a DNS query served through the server produced %d dns events, want 1", n)
	}
}

func TestHandEchoDatagramReported(t *testing.T) {
	c := &handCapture{}
	replies := handServe(t, "echo", services.Echo(services.WithChannel(c)), 7, []byte("ping"))
	if len(replies) != 1 || string(replies[0]) != "ping" {
		t.Fatalf("echo replies %q, want one reply \"ping\"", replies)
	}
	if n := c.count("echo"); n != 1 {
		t.Fatalf("a datagram sent to the echo service produced %d echo events, want 1", n)
	}
}
