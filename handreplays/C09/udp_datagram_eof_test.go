package listener

// Hand replay for listener.(*DummyUDPConn).Read/post/eof (property C09): once the datagram has been
// consumed Read kept returning (0, nil) instead of an end-of-stream error, so every handler that reads
// until an error (ntp: io.Copy(os.Stdout, conn)) span forever: one busy goroutine per datagram ever
// received.

import (
	"io"
	"io/ioutil"
	"net"
	"testing"
	"time"
)

func TestHandUDPDatagramEOF(t *testing.T) {
	dc := &DummyUDPConn{Buffer: []byte("hello"), Raddr: &net.UDPAddr{IP: net.IPv4(192, 0, 2, 7), Port: 123}}
	done := make(chan error, 1)
	go func() {
		_, err := io.Copy(ioutil.Discard, dc) // what the ntp handler does
		done <- err
	}()
	select {
	case <-done:
	case <-time.After(2 * time.Second):
		t.Fatalf("a handler copying from the datagram connection is still running 2 s after the datagram was consumed")
	}
}
