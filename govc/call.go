package main

import (
	"fmt"
	"go/types"
	"strings"

	"golang.org/x/tools/go/ssa"
)

// check: an enabled kind becomes an obligation (assert, then assume); a disabled kind is only
// assumed (if the condition failed the instruction would panic and the path would end here).
func (e *Exec) check(kind, anchor, pc, cond, pos, desc string) {
	if e.enabled(kind) {
		e.oblige(kind, anchor, pc, cond, pos, desc)
	} else {
		e.assume(mkImp(pc, cond))
	}
}

func (fr *Frame) execCall(x *ssa.Call) {
	cc := x.Common()
	var args []Val
	for _, a := range cc.Args {
		v := fr.val(a)
		args = append(args, v)
	}
	fv := fr.val(cc.Value)
	res := fr.doCall(x, cc, fv, args, x)
	if x.Type() != nil {
		if t, ok := x.Type().(*types.Tuple); ok && t.Len() == 0 {
			return
		}
		res.T = x.Type()
		fr.vals[x] = res
	}
}

func (e *Exec) onStack(fn *ssa.Function) bool {
	for _, s := range e.stack {
		if s == fn {
			return true
		}
	}
	return false
}

func (e *Exec) canInline(fn *ssa.Function, depth int) bool {
	if fn == nil || len(fn.Blocks) == 0 {
		return false
	}
	if depth >= 5 {
		return false
	}
	for _, s := range e.stack {
		if s == fn {
			return false
		}
	}
	if sp := e.L.specFor(fn); sp != nil && sp.NoInline {
		return false
	}
	if sp := e.L.specFor(fn); sp != nil && sp.Inline {
		return true
	}
	if !e.L.inlinablePkg(fn) {
		return false
	}
	n := 0
	for _, b := range fn.Blocks {
		n += len(b.Instrs)
	}
	return n <= e.L.inlineLimit
}

func (fr *Frame) doCall(in ssa.Instruction, cc *ssa.CallCommon, fv Val, args []Val, callInstr *ssa.Call) Val {
	fr.checkEscape(in, cc)
	res := fr.doCall0(in, cc, fv, args, callInstr)
	e := fr.e
	if fr.depth == 0 && e.spec != nil && len(e.spec.CallCount) > 0 {
		name, short := "", ""
		if callee := cc.StaticCallee(); callee != nil {
			name, short = callee.Name(), e.L.shortName(callee)
		} else if cc.IsInvoke() {
			short = e.L.ifaceKey(cc)
		}
		for k, g := range e.spec.CallCount {
			if k == name || k == short || (cc.IsInvoke() && strings.HasSuffix(short, "."+k)) {
				env := e.baseEnv(fr, fr.st)
				if _, err := env.evalIdent(g); err != nil { // registers the ghost variable's sort
					e.errs = append(e.errs, fmt.Sprintf("callcount %s: %v", k, err))
					continue
				}
				srt := e.keySort["X:"+g]
				cur := e.heapGet(fr.st, "X:"+g, srt)
				e.heapSet(fr.st, "X:"+g, srt, mkIte(fr.pc, bvAdd(cur, bvLitI(64, 1)), cur))
			}
		}
	}
	return res
}

func (fr *Frame) doCall0(in ssa.Instruction, cc *ssa.CallCommon, fv Val, args []Val, callInstr *ssa.Call) Val {
	e := fr.e
	var resT types.Type = cc.Signature().Results()
	if cc.Signature().Results().Len() == 1 {
		resT = cc.Signature().Results().At(0).Type()
	}
	if b, ok := cc.Value.(*ssa.Builtin); ok {
		return fr.builtin(in, b, args, resT)
	}
	var callee *ssa.Function
	var binds []Val
	if cc.IsInvoke() {
		// interface method call
		if fv.Dyn != nil {
			if m := e.L.prog.LookupMethod(fv.Dyn, cc.Method.Pkg(), cc.Method.Name()); m != nil {
				callee = m
				recv := e.unbox(fv, fv.Dyn)
				recv.T = fv.Dyn
				recv.NN = true
				args = append([]Val{recv}, args...)
			}
		}
		if callee == nil {
			if !fv.NN {
				e.check("nil", fr.anchor(in), fr.pc, mkNot(mkEq(fv.S, "inil")), e.posOf(in.Pos()), "method call on nil interface")
			}
			if T := e.L.soleImplementation(cc.Value.Type()); T != nil {
				if m := e.L.prog.LookupMethod(T, cc.Method.Pkg(), cc.Method.Name()); m != nil {
					// declared sole implementation: the dynamic type is T
					e.assume(mkImp(fr.pc, mkEq(app("itype", fv.S), e.typeTag(T))))
					e.flag("sole-implementation: " + cc.Value.Type().String() + " is " + T.String())
					recv := e.unbox(fv, T)
					recv.T = T
					recv.NN = true
					return fr.callResolved(in, m, nil, append([]Val{recv}, args...), resT)
				}
			}
			if sp := e.L.ifaceSpec(cc); sp != nil {
				all := append([]Val{fv}, args...)
				return fr.applyContract(in, nil, sp, all, nil, resT, e.L.ifaceKey(cc))
			}
			// call-site conditions hold for interface calls without a contract too
			fr.checkCallPre(in, nil, nil, append([]Val{fv}, args...), nil, e.L.ifaceKey(cc))
			return fr.havocCall(in, e.L.ifaceKey(cc), resT, nil)
		}
	} else {
		callee = cc.StaticCallee()
		if callee == nil && fv.Fn != nil {
			callee = fv.Fn
		}
		if fv.Fn != nil {
			binds = fv.Binds
		}
		if callee == nil {
			if sp := e.L.funcTypeSpec(cc.Value.Type()); sp != nil {
				all := append([]Val{fv}, args...)
				return fr.applyContract(in, nil, sp, all, nil, resT, sp.Key)
			}
			return fr.havocCall(in, "dynamic-call:"+shortTypeKey(cc.Value.Type()), resT, nil)
		}
	}
	return fr.callResolved(in, callee, binds, args, resT)
}

// callResolved: a call whose callee is statically known (contract, model, inlining or havoc).
func (fr *Frame) callResolved(in ssa.Instruction, callee *ssa.Function, binds []Val, args []Val, resT types.Type) Val {
	e := fr.e
	key := e.L.funcKey(callee)
	sp := e.L.specFor(callee)
	if sp != nil && sp.NoReturn {
		e.check("panic", fr.anchor(in), fr.pc, "false", e.posOf(in.Pos()), "call to "+key+" never returns")
		e.assume(mkNot(fr.pc))
		return e.freshVal(resT, "noret", fr.pc)
	}
	if v, ok := fr.model(in, callee, args, resT); ok {
		return v
	}
	if callee == e.top || e.onStack(callee) {
		// recursion: needs a measure that decreases at this call and is bounded below; without a
		// `decreases` clause termination (and a bounded stack) is not established
		goal := "false"
		desc := "recursive call of " + key + " without a decreases clause: unbounded recursion is not excluded"
		if callee == e.top && e.spec != nil && e.spec.Decreases != nil && e.variant0 != "" {
			cenv := e.calleeEnv(callee, e.spec, args, binds, fr.st, nil)
			if v, err := cenv.eval(e.spec.Decreases.E); err == nil {
				zero := bvLitI(64, 0)
				goal = mkAnd(app("bvsle", zero, e.variant0), app("bvslt", e.toBV64(v), e.variant0))
				desc = "recursive call: measure " + e.spec.Decreases.Src + " decreases and is bounded below"
			} else {
				e.errs = append(e.errs, fmt.Sprintf("%s: %v", e.spec.Decreases.Line, err))
			}
		}
		e.oblige("variant", fr.prefix+"recursion:"+e.L.shortName(callee), fr.pc, goal, e.posOf(in.Pos()), desc)
		if callee != e.top || sp == nil {
			return fr.havocCall(in, key, resT, callee)
		}
	}
	if sp != nil && !sp.Inline {
		return fr.applyContract(in, callee, sp, args, binds, resT, key)
	}
	if fr.depth == 0 && e.spec != nil && e.spec.CallPre != nil {
		fr.checkCallPre(in, callee, sp, args, binds, key)
	}
	if e.canInline(callee, fr.depth) {
		e.inlined[key] = true
		// receiver nil check is done inside by dereferences
		pre := fr.prefix + e.L.shortName(callee) + ":"
		res, st, returns := e.runBody(callee, args, binds, fr.st, fr.pc, fr.depth+1, pre)
		e.pcNow = fr.pc
		if !returns {
			// callee never returns on any path (always panics)
			e.assume(mkNot(fr.pc))
			return e.freshVal(resT, "noret", fr.pc)
		}
		fr.st = st
		return res
	}
	return fr.havocCall(in, key, resT, callee)
}

func (fr *Frame) havocCall(in ssa.Instruction, key string, resT types.Type, callee *ssa.Function) Val {
	e := fr.e
	e.flag("havoc-call:" + key)
	e.havocAll(fr.st)
	res := e.freshVal(resT, "call", fr.pc)
	fr.markResultNN(&res, resT)
	return res
}

// markResultNN: A2': pointer results of uncontracted/assumed callees are taken to be non-nil
// exactly when they are not accompanied by an error or bool result.
func (fr *Frame) markResultNN(res *Val, resT types.Type) {
	if t, ok := resT.(*types.Tuple); ok {
		if t.Len() == 0 {
			return
		}
		return
	}
	switch resT.Underlying().(type) {
	case *types.Pointer, *types.Map, *types.Chan, *types.Signature:
		res.NN = true
	}
}

func (fr *Frame) applyContract(in ssa.Instruction, callee *ssa.Function, sp *FuncSpec, args []Val, binds []Val, resT types.Type, key string) Val {
	e := fr.e
	sp.Used = true
	if sp.Assumed {
		e.assumedUsed[key] = true
	} else if sp.Trusted {
		e.assumedUsed["TRUSTED (repository function, contract not verified): "+key] = true
	} else {
		e.flag("contract-call:" + key)
	}
	env := e.calleeEnv(callee, sp, args, binds, fr.st, nil)
	if callee != nil && callee.Signature.Recv() != nil && len(args) > 0 && !args[0].NN && args[0].A == nil && args[0].S != "" {
		if _, isPtr := args[0].T.Underlying().(*types.Pointer); isPtr {
			e.check("nil", fr.anchor(in), fr.pc, mkNot(mkEq(args[0].S, "0")), e.posOf(in.Pos()), "nil receiver for "+key)
		}
	}
	for _, r := range sp.Physical {
		if t, err := env.evalBool(r.E); err == nil {
			e.assume(mkImp(fr.pc, t))
			e.flag("physical-assumption: " + r.Src)
		} else {
			e.errs = append(e.errs, fmt.Sprintf("%s: %v", r.Line, err))
		}
	}
	for i, r := range sp.Requires {
		t, err := env.evalBool(r.E)
		if err != nil {
			e.errs = append(e.errs, fmt.Sprintf("%s: %v", r.Line, err))
			continue
		}
		lbl := r.Label
		if lbl == "" {
			lbl = fmt.Sprint(i + 1)
		}
		name := key
		if callee != nil {
			name = e.L.shortName(callee)
		}
		e.oblige("pre", fr.prefix+name+"/"+lbl, fr.pc, t, e.posOf(in.Pos()), "precondition of "+key+": "+r.Src)
	}
	fr.checkCallPre(in, callee, sp, args, binds, key)
	old := fr.st.clone()
	if sp.ModAll {
		kept := map[string]string{}
		for _, g := range sp.Preserves {
			k := "X:" + g
			if strings.HasPrefix(g, "key(") && strings.HasSuffix(g, ")") {
				k = g[4 : len(g)-1] // a raw heap key, e.g. key(E:uint8#0): the contents of all byte arrays
			}
			if v, ok := fr.st.heap[k]; ok {
				kept[k] = v
			} else if srt, known := e.keySort[k]; known {
				kept[k] = e.heapGet(fr.st, k, srt)
			} else {
				// never read or written so far: keep "its value in the current generation" until the sort is known
				kept[k] = fmt.Sprintf("\x00gen:%d", fr.st.gen)
			}
		}
		e.havocAll(fr.st)
		for k, v := range kept {
			fr.st.heap[k] = v
		}
	} else {
		// the locations of a modifies clause denote pre-state locations: evaluate every
		// clause in the pre-call state, so that an earlier clause's havoc does not redirect a later one
		penv := *env
		penv.st = old
		for _, m := range sp.Modifies {
			if err := penv.havocLoc(m.E, fr.st); err != nil {
				e.errs = append(e.errs, fmt.Sprintf("%s: %v", m.Line, err))
			}
		}
	}
	// the callee may have allocated: what it returns, and what is loaded from that, may lie above the
	// caller's allocation bound (fresh(x) is "above the bound at the call")
	if !sp.Pure {
		na := e.fresh("alloc", sRef)
		e.assume(app(">=", na, fr.st.alloc))
		fr.st.alloc = na
	}
	res := e.freshVal(resT, "res_"+lastName(key), fr.pc)
	if sp.NonNil {
		if kindOf(resT) == kTuple {
			for i := range res.F {
				res.F[i].NN = true
			}
		} else {
			res.NN = true
			if scalarSort(resT) == sIface {
				e.assume(mkImp(fr.pc, mkNot(mkEq(res.S, "inil"))))
			} else if scalarSort(resT) == sRef && kindOf(resT) == kScalar {
				e.assume(mkImp(fr.pc, mkNot(mkEq(res.S, "0"))))
			}
		}
	} else if sp.Assumed {
		fr.markResultNN(&res, resT)
	}
	env2 := e.calleeEnv(callee, sp, args, binds, fr.st, old)
	env2.bindResult(callee, resT, res)
	for _, en := range sp.Ensures {
		t, err := env2.evalBool(en.E)
		if err != nil {
			// clauses about the callee's own local variables tell a caller nothing
			if m := reUnknownID.FindStringSubmatch(err.Error()); m != nil && callee != nil && e.L.isLocalName(callee, m[1]) {
				continue
			}
			e.errs = append(e.errs, fmt.Sprintf("%s: %v", en.Line, err))
			continue
		}
		e.assume(mkImp(fr.pc, t))
		if strings.Contains(t, "(forall ((q_") {
			for _, idx := range e.specIdx {
				if inst, ok := instantiateForalls(t, idx); ok {
					e.assume(mkImp(fr.pc, inst))
				}
			}
		}
	}
	if sp.CallsEach != "" {
		fr.applyCallsEach(in, sp, env2)
	}
	if e.spec != nil && e.spec.AssumeResult != nil && fr.depth == 0 {
		for name, cls := range e.spec.AssumeResult {
			if callee != nil && name != e.L.shortName(callee) && name != callee.Name() {
				continue
			}
			if callee == nil && !strings.HasSuffix(key, "."+name) && key != name {
				continue
			}
			for _, c := range cls {
				t, err := env2.evalBool(c.E)
				if err != nil {
					e.errs = append(e.errs, fmt.Sprintf("%s: %v", c.Line, err))
					continue
				}
				e.assume(mkImp(fr.pc, t))
				e.flag("assumed-at-call " + name + ": " + c.Src)
			}
		}
	}
	return res
}

// applyCallsEach: the higher-order clause "callseach opts(e)": the callee's effect is that of
// calling opts[0](e), opts[1](e), ... in order, skipping nil entries. It is applied when the
// slice is a literal-length argument list whose elements are statically known closures;
// otherwise the event stores the options may touch are havocked.
func (fr *Frame) applyCallsEach(in ssa.Instruction, sp *FuncSpec, env *SpecEnv) {
	e := fr.e
	x, err := parseSpecExpr(sp.CallsEach)
	if err != nil || x.Op != "call" {
		e.errs = append(e.errs, sp.File+": bad callseach clause")
		return
	}
	sl, err := env.eval(x.Args[0])
	if err != nil || kindOf(sl.T) != kSlice {
		e.errs = append(e.errs, fmt.Sprintf("%s: callseach: %v", sp.File, err))
		return
	}
	var cargs []Val
	for _, a := range x.Args[1:] {
		v, err := env.eval(a)
		if err != nil {
			e.errs = append(e.errs, fmt.Sprintf("%s: callseach: %v", sp.File, err))
			return
		}
		cargs = append(cargs, v)
	}
	el := sl.T.Underlying().(*types.Slice).Elem()
	n, _, isLit := litVal(sl.sLen())
	giveUp := func(why string) {
		e.flag("callseach-not-expanded: " + why)
		for _, k := range []string{"X:ghas", "X:gstore"} {
			if srt, known := e.keySort[k]; known {
				fr.st.heap[k] = e.fresh("Hce_"+k, srt)
			} else {
				e.pendingHavoc(fr.st, k)
			}
		}
	}
	if !isLit || !n.IsInt64() || n.Int64() > 16 {
		giveUp("argument list of unknown length")
		return
	}
	sig, _ := el.Underlying().(*types.Signature)
	for i := int64(0); i < n.Int64(); i++ {
		fv := e.loadAddr(fr.st, &Addr{Kind: aElem, T: el, Ref: sl.sBase(), Idx: bvAdd(sl.sOff(), bvLitI(64, i)), Key: "E:" + typeKey(el)})
		if fv.S == "0" {
			continue // nil option: skipped
		}
		st, ok := e.fnStatic[fv.S]
		if !ok {
			giveUp("option " + fmt.Sprint(i) + " is not a statically known closure")
			return
		}
		var rT types.Type = types.NewTuple()
		if sig != nil {
			rT = sig.Results()
			if sig.Results().Len() == 1 {
				rT = sig.Results().At(0).Type()
			}
		}
		fr.callResolved(in, st.Fn, st.Binds, cargs, rT)
	}
}

func lastName(key string) string {
	i := strings.LastIndexAny(key, "./)")
	return key[i+1:]
}

// ---------------------------------------------------------------- builtins

func (fr *Frame) builtin(in ssa.Instruction, b *ssa.Builtin, args []Val, resT types.Type) Val {
	e := fr.e
	switch b.Name() {
	case "len":
		a := args[0]
		switch u := a.T.Underlying().(type) {
		case *types.Slice:
			return Val{T: tInt, S: a.sLen()}
		case *types.Basic:
			return Val{T: tInt, S: app("slen", a.S)}
		case *types.Array:
			return Val{T: tInt, S: bvLitI(64, u.Len())}
		case *types.Pointer:
			if arr, ok := u.Elem().Underlying().(*types.Array); ok {
				return Val{T: tInt, S: bvLitI(64, arr.Len())}
			}
		}
		v := e.freshVal(tInt, "len", fr.pc)
		e.assume(mkImp(fr.pc, mkAnd(app("bvsle", bvLitI(64, 0), v.S), app("bvsle", v.S, bvLitI(64, 1<<40)))))
		return v
	case "cap":
		a := args[0]
		switch u := a.T.Underlying().(type) {
		case *types.Slice:
			return Val{T: tInt, S: a.sCap()}
		case *types.Array:
			return Val{T: tInt, S: bvLitI(64, u.Len())}
		}
		v := e.freshVal(tInt, "cap", fr.pc)
		e.assume(mkImp(fr.pc, app("bvsle", bvLitI(64, 0), v.S)))
		return v
	case "append":
		return fr.builtinAppend(in, args, resT)
	case "copy":
		return fr.builtinCopy(in, args)
	case "delete":
		m := args[0]
		ks, ok := e.mapSorts(m.T)
		if !ok {
			e.flag("map-composite-key")
			return Val{}
		}
		pk := "M:" + typeKey(m.T) + ".present"
		psrt := arrSort(sRef, arrSort(ks, sBool))
		parr := e.heapGet(fr.st, pk, psrt)
		k := args[1].leaves()[0]
		// delete on a nil map is a no-op
		e.heapSet(fr.st, pk, psrt, mkIte(mkEq(m.S, "0"), parr, sto(parr, m.S, sto(sel(parr, m.S), k, "false"))))
		return Val{}
	case "print", "println":
		return Val{}
	case "recover":
		e.flag("recover")
		return e.freshVal(resT, "recover", fr.pc)
	case "close":
		e.flag("chan-close")
		// ghost: the set of closed channels (closed(ch) in contracts)
		if len(args) == 1 && args[0].S != "" {
			srt := arrSort(sRef, sBool)
			e.keySort["X:chclosed"] = srt
			cur := e.heapGet(fr.st, "X:chclosed", srt)
			e.heapSet(fr.st, "X:chclosed", srt, mkIte(fr.pc, sto(cur, args[0].S, "true"), cur))
		}
		return Val{}
	case "min", "max":
		if w, signed, ok := intInfo(resT); ok && len(args) >= 1 {
			_ = w
			cur := args[0].S
			for _, a := range args[1:] {
				lt := "bvult"
				if signed {
					lt = "bvslt"
				}
				c := app(lt, a.S, cur)
				if b.Name() == "max" {
					c = app(lt, cur, a.S)
				}
				cur = mkIte(c, a.S, cur)
			}
			return Val{T: resT, S: cur}
		}
	case "ssa:wrapnilchk":
		fr.nilCheck(in, args[0], "method value on nil pointer")
		return args[0]
	}
	e.flag("unsupported-builtin:" + b.Name())
	return e.freshVal(resT, "builtin", fr.pc)
}

func (fr *Frame) byteSrc(v Val) (arr, off, ln string, ok bool) {
	e := fr.e
	switch kindOf(v.T) {
	case kSlice:
		el := v.T.Underlying().(*types.Slice).Elem()
		if isAggregate(el) || len(leafSorts(el)) != 1 {
			return "", "", "", false
		}
		s := leafSorts(el)[0]
		a := e.heapGet(fr.st, elemKey(el, 0), arrSort(sRef, arrSort(sBV64, s)))
		return sel(a, v.sBase()), v.sOff(), v.sLen(), true
	}
	return "", "", "", false
}

func (fr *Frame) builtinCopy(in ssa.Instruction, args []Val) Val {
	e := fr.e
	dst, src := args[0], args[1]
	el := dst.T.Underlying().(*types.Slice).Elem()
	if isAggregate(el) || len(leafSorts(el)) != 1 {
		e.flag("copy-composite")
		e.havocAll(fr.st)
		return e.freshVal(tInt, "copyn", fr.pc)
	}
	es := leafSorts(el)[0]
	asrt := arrSort(sBV64, es)
	srt := arrSort(sRef, asrt)
	key := elemKey(el, 0)
	heap := e.heapGet(fr.st, key, srt)
	dArr := sel(heap, dst.sBase())
	var srcAt func(i string) string
	var sLen string
	if scalarSort(src.T) == sStr && kindOf(src.T) == kScalar {
		sLen = app("slen", src.S)
		srcAt = func(i string) string { return app("sat", src.S, i) }
	} else {
		sArr := sel(heap, src.sBase())
		sLen = src.sLen()
		srcAt = func(i string) string { return sel(sArr, bvAdd(src.sOff(), i)) }
	}
	n := e.fresh("copyn", sBV64)
	e.assume(mkEq(n, mkIte(app("bvslt", dst.sLen(), sLen), dst.sLen(), sLen)))
	na := e.fresh("copied", asrt)
	i := "i!c"
	rel := bvSub(i, dst.sOff())
	body := mkEq(sel(na, i), mkIte(mkAnd(app("bvsle", dst.sOff(), i), app("bvslt", i, bvAdd(dst.sOff(), n))), srcAt(rel), sel(dArr, i)))
	_ = body
	e.defArray(na, i, mkIte(mkAnd(app("bvsle", dst.sOff(), i), app("bvslt", i, bvAdd(dst.sOff(), n))), srcAt(rel), sel(dArr, i)))
	e.heapSet(fr.st, key, srt, mkIte(mkEq(n, bvLitI(64, 0)), heap, sto(heap, dst.sBase(), na)))
	return Val{T: tInt, S: n}
}

func (fr *Frame) builtinAppend(in ssa.Instruction, args []Val, resT types.Type) Val {
	e := fr.e
	s, t := args[0], args[1]
	el := resT.Underlying().(*types.Slice).Elem()
	if isAggregate(el) || len(leafSorts(el)) != 1 {
		e.flag("append-composite")
		// sound fallback: unknown slice, heap of that element type havocked
		for _, k := range e.keysOfType(el, true) {
			if srt, ok := e.keySort[k]; ok {
				fr.st.heap[k] = e.fresh("Happ_"+k, srt)
			} else {
				e.pendingHavoc(fr.st, k)
			}
		}
		v := e.freshVal(resT, "append", fr.pc)
		// length (and only the length) of the result is known
		tl := ""
		if kindOf(t.T) == kSlice {
			tl = t.sLen()
		} else {
			tl = app("slen", t.S)
		}
		e.assume(mkImp(fr.pc, mkAnd(mkEq(v.sLen(), bvAdd(s.sLen(), tl)), mkNot(mkEq(v.sBase(), "0")), app("<=", v.sBase(), fr.st.alloc))))
		v.NN = true
		return v
	}
	es := leafSorts(el)[0]
	asrt := arrSort(sBV64, es)
	srt := arrSort(sRef, asrt)
	key := elemKey(el, 0)
	heap := e.heapGet(fr.st, key, srt)
	var tAt func(i string) string
	var tLen string
	if kindOf(t.T) == kScalar && scalarSort(t.T) == sStr {
		tLen = app("slen", t.S)
		tAt = func(i string) string { return app("sat", t.S, i) }
	} else {
		tArr := sel(heap, t.sBase())
		tLen = t.sLen()
		tAt = func(i string) string { return sel(tArr, bvAdd(t.sOff(), i)) }
	}
	newLen := e.fresh("applen", sBV64)
	e.assume(mkEq(newLen, bvAdd(s.sLen(), tLen)))
	fits := e.fresh("appfits", sBool)
	e.assume(mkEq(fits, app("bvsle", newLen, s.sCap())))
	// in place
	sArr := sel(heap, s.sBase())
	i := "i!a"
	start := bvAdd(s.sOff(), s.sLen())
	// a literal, small number of appended elements (the usual append(s, x)): the in-place array
	// is a plain chain of stores, no quantified definition needed
	smallK := -1
	if v, _, ok := litVal(tLen); ok && v.IsInt64() && v.Int64() >= 1 && v.Int64() <= 4 {
		smallK = int(v.Int64())
	}
	var inArr string
	if smallK > 0 {
		inArr = sArr
		for j := 0; j < smallK; j++ {
			inArr = sto(inArr, bvAdd(start, bvLitI(64, int64(j))), tAt(bvLitI(64, int64(j))))
		}
	} else {
		inArr = e.fresh("app_inplace", asrt)
		e.defArray(inArr, i, mkIte(mkAnd(app("bvsle", start, i), app("bvslt", i, bvAdd(start, tLen))), tAt(bvSub(i, start)), sel(sArr, i)))
	}
	// reallocated
	r := e.newRef(fr.st, "append")
	reArr := e.fresh("app_realloc", asrt)
	body2 := mkEq(sel(reArr, i), mkIte(mkAnd(app("bvsle", bvLitI(64, 0), i), app("bvslt", i, s.sLen())), sel(sArr, bvAdd(s.sOff(), i)),
		mkIte(mkAnd(app("bvsle", s.sLen(), i), app("bvslt", i, newLen)), tAt(bvSub(i, s.sLen())), zeroLeaf(es))))
	_ = body2
	e.defArray(reArr, i, mkIte(mkAnd(app("bvsle", bvLitI(64, 0), i), app("bvslt", i, s.sLen())), sel(sArr, bvAdd(s.sOff(), i)),
		mkIte(mkAnd(app("bvsle", s.sLen(), i), app("bvslt", i, newLen)), tAt(bvSub(i, s.sLen())), zeroLeaf(es))))
	for j := 0; j < smallK; j++ {
		// explicit facts about the appended elements of the reallocated array
		e.assume(mkImp(fr.pc, mkEq(sel(reArr, bvAdd(s.sLen(), bvLitI(64, int64(j)))), tAt(bvLitI(64, int64(j))))))
	}
	newCap := e.fresh("appcap", sBV64)
	e.assume(mkAnd(app("bvsle", newLen, newCap), app("bvsle", newCap, bvLitI(64, 1<<42))))
	nothing := mkEq(tLen, bvLitI(64, 0))
	e.heapSet(fr.st, key, srt, mkIte(nothing, heap, mkIte(fits, sto(heap, s.sBase(), inArr), sto(heap, r, reArr))))
	if es == sStr {
		// built-in fact of the append model: the first len(s) elements of the result are those of s
		newHeap := e.heapGet(fr.st, key, srt)
		rb := mkIte(mkOr(fits, nothing), s.sBase(), r)
		ro := mkIte(mkOr(fits, nothing), s.sOff(), bvLitI(64, 0))
		e.assume(mkImp(fr.pc, mkEq(app("labs", sel(newHeap, rb), ro, s.sLen()), app("labs", sArr, s.sOff(), s.sLen()))))
	}
	res := mkSlice(resT,
		mkIte(mkOr(fits, nothing), s.sBase(), r),
		mkIte(mkOr(fits, nothing), s.sOff(), bvLitI(64, 0)),
		newLen,
		mkIte(mkOr(fits, nothing), s.sCap(), newCap))
	return res
}

// checkCallPre: the call-site conditions (callpre) the function under verification states for this callee.
// They apply however the call is then treated (contract, inlining or havoc).
func (fr *Frame) checkCallPre(in ssa.Instruction, callee *ssa.Function, sp *FuncSpec, args []Val, binds []Val, key string) {
	e := fr.e
	if e.spec != nil && e.spec.CallPre != nil {
		for name, cls := range e.spec.CallPre {
			if callee != nil && name != e.L.shortName(callee) && name != callee.Name() {
				continue
			}
			if callee == nil && !strings.HasSuffix(key, "."+name) && key != name {
				continue
			}
			cenv := e.calleeEnv(callee, sp, args, binds, fr.st, nil)
			cenv.old = e.entry
			if tp := pkgOf(e.top); tp != nil {
				cenv.pkg = tp.Pkg // call-site conditions are written in the caller's vocabulary
			}
			if fr.depth == 0 {
				// the caller's own names (parameters and named locals) are visible too, prefixed
				// names of the callee win on a clash; "caller.x" always means the caller's x
				benv := e.baseEnv(fr, fr.st)
				for k, v := range benv.vars {
					if _, clash := cenv.vars[k]; !clash {
						cenv.vars[k] = v
					}
					cenv.vars["caller."+k] = v
				}
			}
			for k, v := range e.params {
				if _, clash := cenv.vars[k]; !clash {
					cenv.vars[k] = v
				}
				cenv.vars["caller."+k] = v
			}
			// spawned: the call is the operand of a go statement (its effects are not awaited)
			_, isGo := in.(*ssa.Go)
			cenv.vars["spawned"] = Val{T: tBool, S: fmt.Sprint(isGo)}
			cenv.callName = name
			usesMark := false
			for _, c := range cls {
				if strings.Contains(c.Src, "sincelastcall(") {
					usesMark = true
				}
			}
			if usesMark {
				defer func(key string, pc string) {
					// after the clauses of this call: the allocation bound becomes the "previous call" mark
					e.keySort[key] = sRef
					cur := e.heapGet(fr.st, key, sRef)
					e.heapSet(fr.st, key, sRef, mkIte(pc, fr.st.alloc, cur))
				}("X:lastcallalloc:"+name, fr.pc)
			}
			for i, c := range cls {
				t, err := cenv.evalBool(c.E)
				if err != nil {
					e.errs = append(e.errs, fmt.Sprintf("%s: %v", c.Line, err))
					continue
				}
				e.oblige("callpre", fmt.Sprintf("%s%s/%d", fr.prefix, name, i+1), fr.pc, t, e.posOf(in.Pos()), "call-site condition for "+name+": "+c.Src)
			}
		}
	}
}

// checkEscape (kind "escape", opt-in through the function's check list): modular reasoning establishes a method's
// precondition at the calls this function makes itself. An object of a module type whose methods carry preconditions
// must therefore not be handed to code outside the module, which may call those methods without establishing them -
// unless the callee's assumed contract declares (option keeps-preconditions) how it calls them; that declaration is
// listed as an assumption.
func (fr *Frame) checkEscape(in ssa.Instruction, cc *ssa.CallCommon) {
	e := fr.e
	if fr.depth != 0 || e.spec == nil || !e.checks["escape"] {
		return
	}
	callee := cc.StaticCallee()
	if callee == nil {
		return // interface and dynamic calls: treated by their own rules
	}
	if p := pkgOf(callee); p != nil && strings.HasPrefix(p.Pkg.Path(), modulePath) {
		return
	}
	sp := e.L.specs.Funcs[e.L.funcKey(callee)]
	for _, a := range cc.Args {
		T := a.Type()
		if mi, ok := a.(*ssa.MakeInterface); ok {
			T = mi.X.Type()
		}
		guarded := e.L.methodWithRequires(T)
		if guarded == "" {
			continue
		}
		if sp != nil && sp.Options["keeps-preconditions"] {
			e.flag("escape-assumed: " + e.L.shortName(callee) + " is handed a " + T.String() + " and is assumed to call its methods as its contract's note says")
			continue
		}
		e.oblige("escape", fr.anchor(in), fr.pc, "false", e.posOf(in.Pos()),
			"a "+T.String()+" (its method "+guarded+" has a precondition) is handed to "+e.L.shortName(callee)+", outside the module, which may call the method without establishing it")
	}
}

// methodWithRequires: the short key of a method of T (a pointer to a named type of this module) whose verified
// contract has a requires clause, or "".
func (L *Loader) methodWithRequires(T types.Type) string {
	pt, ok := T.(*types.Pointer)
	if !ok {
		return ""
	}
	nt, ok := pt.Elem().(*types.Named)
	if !ok || nt.Obj().Pkg() == nil || !strings.HasPrefix(nt.Obj().Pkg().Path(), modulePath) {
		return ""
	}
	ms := L.prog.MethodSets.MethodSet(T)
	for i := 0; i < ms.Len(); i++ {
		m := L.prog.MethodValue(ms.At(i))
		if m == nil {
			continue
		}
		if sp := L.specs.Funcs[L.funcKey(m)]; sp != nil && !sp.Assumed && len(sp.Requires) > 0 {
			return L.funcKeyShort(m)
		}
	}
	return ""
}
