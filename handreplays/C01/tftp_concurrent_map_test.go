package services

// Hand replay for services.(*tftpService).Handle/shared-map (properties C01 and C03): the tftp service is
// built once and its Handle runs in one goroutine per datagram (server/honeytrap.go: go hc.handle(conn)).
// Every write request stores into the map s.buffers, every short DATA packet deletes from it, and no lock
// is held: two clients that send write requests at the same time make the runtime detect the concurrent
// map access and end the process with "fatal error: concurrent map writes" (not recoverable).

import (
	"bytes"
	"context"
	"net"
	"os"
	"os/exec"
	"strings"
	"sync"
	"testing"
	"time"

	"github.com/honeytrap/honeytrap/pushers"
)

type handTftpConn struct {
	r      *bytes.Reader
	remote net.Addr
}

func (c *handTftpConn) Read(b []byte) (int, error)       { return c.r.Read(b) }
func (c *handTftpConn) Write(b []byte) (int, error)      { return len(b), nil }
func (c *handTftpConn) Close() error                     { return nil }
func (c *handTftpConn) LocalAddr() net.Addr              { return &net.UDPAddr{IP: net.IPv4(10, 0, 0, 1), Port: 69} }
func (c *handTftpConn) RemoteAddr() net.Addr             { return c.remote }
func (c *handTftpConn) SetDeadline(time.Time) error      { return nil }
func (c *handTftpConn) SetReadDeadline(time.Time) error  { return nil }
func (c *handTftpConn) SetWriteDeadline(time.Time) error { return nil }

func TestHandTftpConcurrentWriteRequests(t *testing.T) {
	cmd := exec.Command(os.Args[0], "-test.run", "TestHandTftpConcurrentWriteRequestsChild")
	cmd.Env = append(os.Environ(), "C01_CHILD=1")
	var out bytes.Buffer
	cmd.Stdout, cmd.Stderr = &out, &out
	if err := cmd.Run(); err != nil {
		s := out.String()
		if i := strings.Index(s, "fatal error"); i >= 0 {
			s = s[i:]
		}
		if len(s) > 160 {
			s = s[:160]
		}
		t.Fatalf("the process serving concurrent tftp clients died: %v\n%s", err, s)
	}
}

func TestHandTftpConcurrentWriteRequestsChild(t *testing.T) {
	if os.Getenv("C01_CHILD") == "" {
		return
	}
	s := TFTP().(*tftpService)
	c, _ := pushers.Dummy()
	s.SetChannel(c)

	wrq := append([]byte{0, 2}, []byte("file\x00octet\x00")...)
	data := append([]byte{0, 3, 0, 1}, []byte("short block")...)

	var wg sync.WaitGroup
	for g := 0; g < 8; g++ {
		wg.Add(1)
		go func(g int) {
			defer wg.Done()
			for i := 0; i < 20000; i++ {
				// every datagram of every client has its own source address: the limiter never drops
				addr := &net.UDPAddr{IP: net.IPv4(10, byte(g+1), byte(i>>8), byte(i)), Port: 1024 + g}
				s.Handle(context.Background(), &handTftpConn{r: bytes.NewReader(wrq), remote: addr})
				s.Handle(context.Background(), &handTftpConn{r: bytes.NewReader(data), remote: addr})
			}
		}(g)
	}
	wg.Wait()
}
