package agent

// Hand replay for the codec obligations of property C16 ("every protocol message decodes to what was
// encoded"):
//  - agent.(*Decoder).ReadData/post/filled: the decoder read payloads with a single bufio Read, which
//    returns at most what is buffered (4096 bytes minus what was consumed): a data message whose payload
//    crosses that boundary came back with its tail zeroed;
//  - agent.(Handshake).MarshalBinary/post/wire: the encoder was never flushed, so a handshake encoded
//    to zero bytes.

import (
	"bytes"
	"net"
	"testing"
)

func TestHandCodecRoundTrip(t *testing.T) {
	la := &net.TCPAddr{IP: net.IPv4(10, 0, 0, 1).To4(), Port: 22}
	ra := &net.TCPAddr{IP: net.IPv4(192, 0, 2, 7).To4(), Port: 40000}
	for _, n := range []int{0, 1, 4000, 4076, 4077, 5000, 65000} {
		payload := bytes.Repeat([]byte{0xAB}, n)
		data, err := ReadWriteTCP{Laddr: la, Raddr: ra, Payload: payload}.MarshalBinary()
		if err != nil {
			t.Fatal(err)
		}
		var back ReadWriteTCP
		if err := back.UnmarshalBinary(data); err != nil {
			t.Fatal(err)
		}
		if !bytes.Equal(back.Payload, payload) {
			bad := 0
			for i := range back.Payload {
				if i >= len(payload) || back.Payload[i] != payload[i] {
					bad++
				}
			}
			t.Errorf("payload of %d bytes: decoded %d bytes, %d of them differ", n, len(back.Payload), bad)
		}
	}
	hs := Handshake{ProtocolVersion: 1, Version: "1.0", ShortCommitID: "abc", CommitID: "abcdef", Token: "tok"}
	data, _ := hs.MarshalBinary()
	var back Handshake
	back.UnmarshalBinary(data)
	if back != hs {
		t.Errorf("handshake %+v encoded to %d bytes and decoded to %+v", hs, len(data), back)
	}
}
