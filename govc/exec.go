package main

import (
	"fmt"
	"go/token"
	"go/types"
	"os"
	"regexp"
	"runtime/debug"
	"sort"
	"strings"

	"golang.org/x/tools/go/ssa"
)

// ---- symbolic executor / VC generator over go/ssa ----

const stride = 1 << 20

type Obligation struct {
	ID       string
	Kind     string
	Func     string // function under contract this obligation belongs to
	Pos      string
	Desc     string
	Prefix   int    // number of script lines that form the context
	Goal     string // term that must be valid under the context (we check ctx ∧ ¬goal unsat)
	Cover    bool   // cover query: ctx ∧ goal must be SAT
	Inputs   []ModelTerm
	Script   []string // filled at discharge time (shared prefix slice)
	Verdict  string   // "unsat","sat","unknown","timeout"
	Solver   string
	Time     float64
	Raw      string
	Model    map[string]string
	Relaxed  bool // Raw holds a candidate model of the quantifier-free relaxation
	TimedOut bool // some solver ran out of time on the full query
}

type ModelTerm struct {
	Name string
	Term string
}

type State struct {
	gen   int
	heap  map[string]string
	alloc string
}

func (s *State) clone() *State {
	n := &State{gen: s.gen, alloc: s.alloc, heap: make(map[string]string, len(s.heap))}
	for k, v := range s.heap {
		n.heap[k] = v
	}
	return n
}

type genMerge struct {
	conds  []string
	states []*State
}

type Exec struct {
	curInstr        ssa.Instruction // the instruction being executed (for flow-sensitive escape reasoning)
	missingVariants []*Obligation   // structural: loops without a measure in a function that claims termination
	L               *Loader
	lines           []string
	nf              int
	onceM           map[string]int // memo key -> line index at which it was emitted
	keySort         map[string]string
	genMerges       map[int]*genMerge
	ngen            int

	obls         []*Obligation
	top          *ssa.Function
	spec         *FuncSpec
	flags        map[string]bool
	assumedUsed  map[string]bool
	inlined      map[string]bool
	stack        []*ssa.Function
	entry        *State
	params       map[string]Val
	paramOrder   []string
	ordCount     map[string]int
	checks       map[string]bool
	errs         []string
	loopBodyOnly int
	inputs       []ModelTerm
	pcNow        string
	disabledAuto map[string]bool
	locals       []localObj
	argTypes     []types.Type
	argFT        bool
	specIdx      []string       // index terms contracts have read slices at (instantiation candidates)
	fnStatic     map[string]Val // closure reference -> statically known function and bindings
	sfromReg     []sfromEntry   // strings taken from byte ranges (for range-precise havoc)
	ssubReg      []ssubEntry    // substring terms (for the substring-of-bytes lemma)
	variant0     string         // entry value of the function-level decreases measure
	ssubCache    map[string]string
	inCatLemma   bool
	inAliasNoted bool
	aliasHint    map[string]map[string]bool
	ifaceStatic  map[string]Val // fresh interface constant -> statically known boxed value
}

func newExec(L *Loader, fn *ssa.Function, spec *FuncSpec) *Exec {
	e := &Exec{L: L, top: fn, spec: spec, onceM: map[string]int{}, keySort: map[string]string{},
		genMerges: map[int]*genMerge{}, flags: map[string]bool{}, assumedUsed: map[string]bool{},
		inlined: map[string]bool{}, ordCount: map[string]int{}, checks: map[string]bool{}}
	if spec != nil {
		for k, v := range spec.Checks {
			e.checks[k] = v
		}
	}
	e.pcNow = "true"
	e.ifaceStatic = map[string]Val{}
	e.fnStatic = map[string]Val{}
	e.prelude()
	return e
}

func (e *Exec) emit(s string) { e.lines = append(e.lines, s) }

func (e *Exec) once(key string, f func()) {
	if _, ok := e.onceM[key]; ok {
		return
	}
	e.onceM[key] = len(e.lines)
	f()
}

func (e *Exec) fresh(prefix, sort string) string {
	e.nf++
	n := sym(fmt.Sprintf("%s!%d", prefix, e.nf))
	e.emit("(declare-const " + n + " " + sort + ")")
	return n
}

func (e *Exec) assume(c string) {
	if c == "true" {
		return
	}
	if os.Getenv("GOVC_DEBUG_BOUND") != "" && reBound.MatchString(c) && !strings.Contains(c, "(forall") && !strings.Contains(c, "(exists") {
		debug.PrintStack()
	}
	if strings.Contains(c, "sub!") {
		e.scanAliases(c)
	}
	if e.spec != nil && e.spec.Options["absidx"] && strings.Contains(c, "(forall ((q_") {
		c = reindexTwins(c)
	}
	e.emit("(assert " + c + ")")
}

// alias hints: an assumption equated the symbol x with the substring name sub (possibly under a
// condition); used to select the pairs for which the substring-of-substring lemma is instantiated.
var reSubName = regexp.MustCompile(`^sub![0-9]+$`)

// scanAliases finds the equalities (= T sub!N) / (= sub!N T) inside an assumed formula.
func (e *Exec) scanAliases(c string) {
	for i := 0; i+3 < len(c); i++ {
		if !strings.HasPrefix(c[i:], "(= ") {
			continue
		}
		depth, j := 0, i
		inq := false
		for ; j < len(c); j++ {
			ch := c[j]
			if ch == '|' {
				inq = !inq
			}
			if inq {
				continue
			}
			if ch == '(' {
				depth++
			} else if ch == ')' {
				depth--
				if depth == 0 {
					break
				}
			}
		}
		if j >= len(c) {
			return
		}
		args := splitArgs(c[i+3 : j])
		if len(args) != 2 {
			continue
		}
		if reSubName.MatchString(args[1]) {
			e.noteAlias(args[0], args[1])
		} else if reSubName.MatchString(args[0]) {
			e.noteAlias(args[1], args[0])
		}
	}
}

func (e *Exec) noteAlias(x, sub string) {
	if x == sub {
		return
	}
	if e.aliasHint == nil {
		e.aliasHint = map[string]map[string]bool{}
	}
	if e.aliasHint[x] == nil {
		e.aliasHint[x] = map[string]bool{}
	}
	if e.aliasHint[x][sub] {
		return
	}
	e.aliasHint[x][sub] = true
	e.aliasNoted(x, sub)
}

func (e *Exec) flag(s string) { e.flags[s] = true }

func (e *Exec) noteIdx(t string) {
	for _, x := range e.specIdx {
		if x == t {
			return
		}
	}
	if len(e.specIdx) < 12 {
		e.specIdx = append(e.specIdx, t)
	}
}

// defArray defines the array constant name pointwise: name[idx] = body (idx ranges over BV64).
// The line is rendered per solver: a lambda equality for z3, a patterned quantifier for cvc5.
func (e *Exec) defArray(name, idx, body string) {
	e.emit(";@defarr " + name + " " + idx + " " + body)
}

func (e *Exec) prelude() {
	e.emit("(set-option :produce-models true)")
	e.emit("(set-logic ALL)")
	e.emit("(declare-sort Str 0)")
	e.emit("(declare-sort Iface 0)")
	e.emit("(declare-sort F64 0)")
	e.emit("(declare-sort Lst 0)")
	e.emit("(declare-const lnil Lst)")
	e.emit("(declare-fun lsnoc (Lst Str) Lst)")
	e.emit("(declare-fun joinl (Lst Str) Str)")
	e.emit("(declare-fun labs ((Array (_ BitVec 64) Str) (_ BitVec 64) (_ BitVec 64)) Lst)")
	e.emit("(declare-const str.empty Str)")
	e.emit("(declare-const inil Iface)")
	e.emit("(declare-const f64.zero F64)")
	e.emit("(declare-fun slen (Str) (_ BitVec 64))")
	e.emit("(declare-fun sat (Str (_ BitVec 64)) (_ BitVec 8))")
	e.emit("(declare-fun itype (Iface) Int)")
	e.emit("(declare-fun iref (Iface) Int)")
	e.emit("(assert (= (slen str.empty) #x0000000000000000))")
	e.emit("(assert (= (itype inil) 0))")
}

var reBound = regexp.MustCompile(`(^|[^A-Za-z0-9_])q_[A-Za-z0-9_]*!\d+`)

// ---------------------------------------------------------------- heap

func (e *Exec) heapGet(st *State, key, sort string) string {
	if t, ok := st.heap[key]; ok {
		if strings.HasPrefix(t, "\x00gen:") {
			// preserved across a havoc while its sort was unknown: the value it had in that generation
			var n int
			fmt.Sscanf(t[len("\x00gen:"):], "%d", &n)
			if old, ok := e.keySort[key]; ok && old != sort {
				panic(fmt.Sprintf("heap key %s: sort %s vs %s", key, old, sort))
			}
			e.keySort[key] = sort
			return e.genSym(n, key, sort)
		}
		if strings.HasPrefix(t, "\x00pending:") {
			name := sym("Hp_" + t[len("\x00pending:"):])
			e.once("pend:"+name, func() { e.emit("(declare-const " + name + " " + sort + ")") })
			e.keySort[key] = sort
			return name
		}
		return t
	}
	if old, ok := e.keySort[key]; ok && old != sort {
		panic(fmt.Sprintf("heap key %s: sort %s vs %s", key, old, sort))
	}
	e.keySort[key] = sort
	return e.genSym(st.gen, key, sort)
}

func (e *Exec) genSym(gen int, key, sort string) string {
	name := sym(fmt.Sprintf("H%d_%s", gen, key))
	e.once("gensym:"+name, func() {
		e.emit("(declare-const " + name + " " + sort + ")")
		if gm := e.genMerges[gen]; gm != nil {
			for i, c := range gm.conds {
				src := e.heapGet(gm.states[i], key, sort)
				e.assume(mkImp(c, mkEq(name, src)))
			}
		}
	})
	return name
}

func (e *Exec) heapSet(st *State, key, sort, term string) {
	e.keySort[key] = sort
	st.heap[key] = term
}

func (e *Exec) havocAll(st *State) {
	// package-level variables that are never written outside init keep their value
	keep := map[string]string{}
	for k, srt := range e.keySort {
		if strings.HasPrefix(k, "G:") && e.L.immutableGlobalKey(k) {
			keep[k] = e.heapGet(st, k, srt)
		}
	}
	// gostarts counts this function's own go statements: no callee changes it
	if _, ok := e.L.specs.GhostVars["gostarts"]; ok {
		e.keySort["X:gostarts"] = sBV64
		keep["X:gostarts"] = e.heapGet(st, "X:gostarts", sBV64)
	}
	// objects allocated by this function that provably never escape it keep their contents
	type kept struct{ pc, key, srt, ref, old string }
	var ks []kept
	for _, o := range e.locals {
		if len(o.escapes) > 0 {
			// escapes somewhere: kept only while none of its escape points can have been executed
			if e.curInstr == nil || e.curInstr.Parent() != o.fn {
				continue
			}
			escaped := false
			for _, s := range o.escapes {
				if mayHaveRun(s, e.curInstr) {
					escaped = true
					break
				}
			}
			if escaped {
				continue
			}
		}
		for _, k := range o.keys {
			if srt, ok := e.keySort[k]; ok {
				ks = append(ks, kept{o.pc, k, srt, o.ref, sel(e.heapGet(st, k, srt), o.ref)})
			}
		}
	}
	e.ngen++
	st.gen = e.ngen
	st.heap = keep
	na := e.fresh("alloc", sRef)
	e.assume(app(">=", na, st.alloc))
	st.alloc = na
	for _, k := range ks {
		e.assume(mkImp(k.pc, mkEq(sel(e.heapGet(st, k.key, k.srt), k.ref), k.old)))
	}
}

type localObj struct {
	ref, pc string
	keys    []string
	// escapes: for an object that does escape, the instructions at which it does (empty: never escapes).
	// Until one of them can have been executed, code outside this function cannot reach the object.
	escapes []ssa.Instruction
	fn      *ssa.Function
}

// registerLocal records a freshly allocated object that does not escape the function.
func (e *Exec) registerLocal(ref, pc string, keys []string) {
	e.locals = append(e.locals, localObj{ref: ref, pc: pc, keys: keys})
}

// registerLocalUntil records a freshly allocated object that escapes only at the given instructions.
func (e *Exec) registerLocalUntil(ref, pc string, keys []string, fn *ssa.Function, sites []ssa.Instruction) {
	e.locals = append(e.locals, localObj{ref: ref, pc: pc, keys: keys, escapes: sites, fn: fn})
}

// escapeSites: the instructions at which the object created by v becomes reachable for code outside this
// function (it is passed to a call, stored, captured, converted, returned, ...). Field and element
// addresses that are only loaded from and stored to are not escapes.
func escapeSites(v ssa.Value, depth int) (sites []ssa.Instruction, ok bool) {
	if depth > 4 {
		return nil, false
	}
	refs := v.Referrers()
	if refs == nil {
		return nil, false
	}
	for _, r := range *refs {
		switch x := r.(type) {
		case *ssa.DebugRef:
		case *ssa.FieldAddr, *ssa.IndexAddr:
			xv := r.(ssa.Value)
			if ir := xv.Referrers(); ir != nil {
				for _, u := range *ir {
					switch y := u.(type) {
					case *ssa.UnOp, *ssa.DebugRef:
					case *ssa.Store:
						if y.Addr != xv {
							sites = append(sites, u)
						}
					default:
						sites = append(sites, u)
					}
				}
			}
		case *ssa.UnOp:
			// load of the whole object (by value)
		case *ssa.Store:
			if x.Addr != v {
				// stored into a field or element of another object made by this function: it escapes when
				// (and only when) that object does
				if base := allocBase(x.Addr); base != nil && base != v {
					more, ok := escapeSites(base, depth+1)
					if !ok {
						return nil, false
					}
					sites = append(sites, more...)
				} else {
					sites = append(sites, r)
				}
			}
		case *ssa.Slice:
			// a slice of the object: escapes where the slice does
			more, ok := escapeSites(x, depth+1)
			if !ok {
				return nil, false
			}
			sites = append(sites, more...)
		case *ssa.Phi:
			more, ok := escapeSites(x, depth+1)
			if !ok {
				return nil, false
			}
			sites = append(sites, more...)
			sites = append(sites, r) // conservatively: from the merge on, the object may be the other one's alias
		default:
			sites = append(sites, r)
		}
	}
	return sites, true
}

// allocBase: the Alloc whose field or element the address denotes (nil if it is not of that shape).
func allocBase(a ssa.Value) ssa.Value {
	for i := 0; i < 8; i++ {
		switch x := a.(type) {
		case *ssa.FieldAddr:
			a = x.X
		case *ssa.IndexAddr:
			a = x.X
		case *ssa.Alloc:
			return x
		default:
			return nil
		}
	}
	return nil
}

// mayHaveRun: instruction s can have been executed when control is at instruction at (same function).
func mayHaveRun(s, at ssa.Instruction) bool {
	sb, ab := s.Block(), at.Block()
	if sb == nil || ab == nil || sb.Parent() != ab.Parent() {
		return true
	}
	idx := func(b *ssa.BasicBlock, in ssa.Instruction) int {
		for i, x := range b.Instrs {
			if x == in {
				return i
			}
		}
		return -1
	}
	if sb == ab && idx(sb, s) <= idx(ab, at) {
		return true
	}
	// is ab reachable from a successor of sb?
	seen := map[*ssa.BasicBlock]bool{}
	stack := append([]*ssa.BasicBlock{}, sb.Succs...)
	for len(stack) > 0 {
		b := stack[len(stack)-1]
		stack = stack[:len(stack)-1]
		if seen[b] {
			continue
		}
		seen[b] = true
		if b == ab {
			return true
		}
		stack = append(stack, b.Succs...)
	}
	return false
}

// nonEscaping: the object created by v (MakeSlice or Alloc) is only ever indexed, sliced,
// measured or copied into/out of inside this function: no call, closure or heap cell sees it.
// capturedReadOnly: a local variable cell that escapes only into closures which never store to it (they
// load it, or pass it on to closures that only load it). Code outside this function cannot reach the
// cell, the closures do not write it, so its content changes only through this function's own stores:
// it survives calls with unknown effects.
func capturedReadOnly(v ssa.Value, depth int) bool {
	if depth > 4 {
		return false
	}
	refs := v.Referrers()
	if refs == nil {
		return false
	}
	for _, r := range *refs {
		switch x := r.(type) {
		case *ssa.DebugRef, *ssa.UnOp:
		case *ssa.Store:
			if x.Addr != v {
				return false
			}
		case *ssa.MakeClosure:
			fn, ok := x.Fn.(*ssa.Function)
			if !ok {
				return false
			}
			for i, b := range x.Bindings {
				if b != v {
					continue
				}
				if i >= len(fn.FreeVars) {
					return false
				}
				fv := fn.FreeVars[i]
				frefs := fv.Referrers()
				if frefs == nil {
					continue
				}
				for _, fr := range *frefs {
					switch y := fr.(type) {
					case *ssa.DebugRef, *ssa.UnOp:
					case *ssa.MakeClosure:
						_ = y
						if !capturedReadOnly(fv, depth+1) {
							return false
						}
					default:
						return false
					}
				}
			}
		default:
			return false
		}
	}
	return true
}

func nonEscaping(v ssa.Value, depth int) bool {
	if depth > 6 {
		return false
	}
	refs := v.Referrers()
	if refs == nil {
		return false
	}
	for _, r := range *refs {
		switch x := r.(type) {
		case *ssa.DebugRef, *ssa.Range:
		case *ssa.IndexAddr:
			if x.X != v {
				return false
			}
			if ir := x.Referrers(); ir != nil {
				for _, u := range *ir {
					switch y := u.(type) {
					case *ssa.UnOp, *ssa.DebugRef:
					case *ssa.Store:
						if y.Addr != ssa.Value(x) {
							return false
						}
					default:
						return false
					}
				}
			}
		case *ssa.FieldAddr:
			if ir := x.Referrers(); ir != nil {
				for _, u := range *ir {
					switch y := u.(type) {
					case *ssa.UnOp, *ssa.DebugRef:
					case *ssa.Store:
						if y.Addr != ssa.Value(x) {
							return false
						}
					default:
						return false
					}
				}
			}
		case *ssa.UnOp:
			// load of the whole object (by value)
		case *ssa.Store:
			if x.Addr != v {
				return false
			}
		case *ssa.Slice:
			if !nonEscaping(x, depth+1) {
				return false
			}
		case *ssa.Phi:
			if !nonEscaping(x, depth+1) {
				return false
			}
		case *ssa.Call:
			b, ok := x.Call.Value.(*ssa.Builtin)
			if !ok {
				return false
			}
			switch b.Name() {
			case "len", "cap", "copy":
			default:
				return false
			}
		default:
			return false
		}
	}
	return true
}

func (e *Exec) mergeStates(conds []string, states []*State) *State {
	if len(states) == 1 {
		return states[0].clone()
	}
	out := &State{heap: map[string]string{}}
	sameGen := true
	for _, s := range states[1:] {
		if s.gen != states[0].gen {
			sameGen = false
		}
	}
	// a key of unknown sort that some branch preserved across a havoc ("its value of generation N") while
	// another branch holds something else (nothing: its own generation's value; or a pending havoc) can only
	// be merged once its sort is known: force a merge generation, whose symbols are defined lazily from the
	// branches' states
	lazyMerge := map[string]bool{}
	for _, s := range states {
		for k, v := range s.heap {
			if _, known := e.keySort[k]; known || !strings.HasPrefix(v, "\x00gen:") {
				continue
			}
			for _, s2 := range states {
				if s2.heap[k] != v {
					lazyMerge[k] = true
				}
			}
		}
	}
	if len(lazyMerge) > 0 {
		sameGen = false
	}
	if sameGen {
		out.gen = states[0].gen
	} else {
		e.ngen++
		out.gen = e.ngen
		cp := make([]*State, len(states))
		for i, s := range states {
			cp[i] = s.clone()
		}
		e.genMerges[out.gen] = &genMerge{conds: append([]string{}, conds...), states: cp}
	}
	keys := map[string]bool{}
	for _, s := range states {
		for k := range s.heap {
			keys[k] = true
		}
	}
	var ks []string
	for k := range keys {
		ks = append(ks, k)
	}
	sort.Strings(ks)
	for _, k := range ks {
		srt, known := e.keySort[k]
		if !known && lazyMerge[k] {
			continue // left out: read through the merge generation when the sort is known
		}
		if !known {
			// preserved with unknown sort in every branch alike: still preserved
			m0, all := states[0].heap[k], strings.HasPrefix(states[0].heap[k], "\x00gen:")
			for _, s := range states[1:] {
				if s.heap[k] != m0 {
					all = false
				}
			}
			if all {
				out.heap[k] = m0
				continue
			}
			// havocked but never read so far (sort unknown): any fresh value will do
			e.pendingHavoc(out, k)
			continue
		}
		terms := make([]string, len(states))
		same := true
		for i, s := range states {
			terms[i] = e.heapGet(s, k, srt)
			if terms[i] != terms[0] {
				same = false
			}
		}
		if same {
			out.heap[k] = terms[0]
			continue
		}
		n := e.fresh("Hm_"+k, srt)
		for i := range states {
			e.assume(mkImp(conds[i], mkEq(n, terms[i])))
		}
		out.heap[k] = n
	}
	// alloc
	same := true
	for _, s := range states[1:] {
		if s.alloc != states[0].alloc {
			same = false
		}
	}
	if same {
		out.alloc = states[0].alloc
	} else {
		n := e.fresh("alloc", sRef)
		for i, s := range states {
			e.assume(mkImp(conds[i], mkEq(n, s.alloc)))
		}
		out.alloc = n
	}
	return out
}

func fieldKey(T types.Type, fld string, k int) string {
	return fmt.Sprintf("F:%s.%s#%d", typeKey(T), fld, k)
}
func boxKey(T types.Type, k int) string  { return fmt.Sprintf("B:%s#%d", typeKey(T), k) }
func elemKey(T types.Type, k int) string { return fmt.Sprintf("E:%s#%d", typeKey(T), k) }

var subIDs = map[string]int{}

func subOffset(T types.Type, fld string) int {
	k := typeKey(T) + "." + fld
	if id, ok := subIDs[k]; ok {
		return id
	}
	id := len(subIDs)*7 + 1
	subIDs[k] = id
	return id
}

func subRef(ref string, T types.Type, fld string) string {
	return app("+", ref, fmt.Sprint(subOffset(T, fld)))
}

func structOf(T types.Type) *types.Struct {
	s, _ := T.Underlying().(*types.Struct)
	return s
}

// loadAt reads the value of type T stored at pointer ref.
func (e *Exec) loadAt(st *State, ref string, T types.Type) Val {
	switch u := T.Underlying().(type) {
	case *types.Struct:
		v := Val{T: T}
		for i := 0; i < u.NumFields(); i++ {
			v.F = append(v.F, e.loadField(st, ref, T, i))
		}
		return v
	case *types.Array:
		v := Val{T: T}
		if isAggregate(u.Elem()) {
			e.flag("array-of-aggregates")
		}
		for k, s := range leafSorts(u.Elem()) {
			arr := e.heapGet(st, elemKey(u.Elem(), k), arrSort(sRef, arrSort(sBV64, s)))
			v.F = append(v.F, Val{T: tArrLeaf, S: sel(arr, ref)})
		}
		return v
	}
	var terms []string
	for k, s := range leafSorts(T) {
		arr := e.heapGet(st, boxKey(T, k), arrSort(sRef, s))
		terms = append(terms, sel(arr, ref))
	}
	return unflatten(T, &terms)
}

func (e *Exec) loadField(st *State, ref string, T types.Type, i int) Val {
	f := structOf(T).Field(i)
	if isAggregate(f.Type()) {
		return e.loadAt(st, subRef(ref, T, f.Name()), f.Type())
	}
	var terms []string
	for k, s := range leafSorts(f.Type()) {
		arr := e.heapGet(st, fieldKey(T, f.Name(), k), arrSort(sRef, s))
		terms = append(terms, sel(arr, ref))
	}
	joined := strings.Join(terms, ",")
	v := unflatten(f.Type(), &terms)
	if kindOf(f.Type()) == kSlice && !reBound.MatchString(joined) {
		e.once("tinv:"+e.pcNow+":"+joined, func() { e.assumeTypeInv(v, e.pcNow) })
	}
	return v
}

func (e *Exec) storeAt(st *State, ref string, T types.Type, v Val) {
	switch u := T.Underlying().(type) {
	case *types.Struct:
		for i := 0; i < u.NumFields(); i++ {
			e.storeField(st, ref, T, i, v.F[i])
		}
		return
	case *types.Array:
		for k, s := range leafSorts(u.Elem()) {
			srt := arrSort(sRef, arrSort(sBV64, s))
			key := elemKey(u.Elem(), k)
			arr := e.heapGet(st, key, srt)
			e.heapSet(st, key, srt, sto(arr, ref, v.F[k].S))
			e.logWrite(key, ref)
		}
		return
	}
	ls := v.leaves()
	for k, s := range leafSorts(T) {
		srt := arrSort(sRef, s)
		key := boxKey(T, k)
		arr := e.heapGet(st, key, srt)
		e.heapSet(st, key, srt, sto(arr, ref, ls[k]))
		e.logWrite(key, ref)
	}
}

func (e *Exec) storeField(st *State, ref string, T types.Type, i int, v Val) {
	f := structOf(T).Field(i)
	if isAggregate(f.Type()) {
		e.storeAt(st, subRef(ref, T, f.Name()), f.Type(), v)
		return
	}
	ls := v.leaves()
	for k, s := range leafSorts(f.Type()) {
		srt := arrSort(sRef, s)
		key := fieldKey(T, f.Name(), k)
		arr := e.heapGet(st, key, srt)
		e.heapSet(st, key, srt, sto(arr, ref, ls[k]))
		e.logWrite(key, ref)
	}
}

// write log for frame obligations
type writeRec struct{ key, ref string }

var _ = writeRec{}

func (e *Exec) logWrite(key, ref string) {}

func (e *Exec) loadAddr(st *State, a *Addr) Val {
	switch a.Kind {
	case aField:
		var terms []string
		for k, s := range leafSorts(a.T) {
			arr := e.heapGet(st, fmt.Sprintf("%s#%d", a.Key, k), arrSort(sRef, s))
			terms = append(terms, sel(arr, a.Ref))
		}
		return unflatten(a.T, &terms)
	case aElem:
		var terms []string
		for k, s := range leafSorts(a.T) {
			arr := e.heapGet(st, fmt.Sprintf("%s#%d", a.Key, k), arrSort(sRef, arrSort(sBV64, s)))
			terms = append(terms, sel(sel(arr, a.Ref), a.Idx))
		}
		return unflatten(a.T, &terms)
	case aGlobal:
		var terms []string
		for k, s := range leafSorts(a.T) {
			terms = append(terms, e.heapGet(st, fmt.Sprintf("%s#%d", a.Key, k), s))
		}
		// sentinel errors of the standard library (io.EOF, io.ErrUnexpectedEOF, ...) are non-nil
		if len(terms) == 1 && scalarSort(a.T) == sIface && !strings.HasPrefix(a.Key, "G:"+modulePath) && !strings.Contains(strings.TrimPrefix(a.Key, "G:"), "/") {
			if i := strings.LastIndex(a.Key, "."); i >= 0 && (strings.HasPrefix(a.Key[i+1:], "Err") || a.Key[i+1:] == "EOF") && e.L.immutableGlobalKey(a.Key+"#0") {
				e.once("sentinel:"+a.Key, func() { e.flag("assumption: standard-library sentinel error " + a.Key[2:] + " is non-nil") })
				e.assume(mkNot(mkEq(terms[0], "inil")))
			}
		}
		return unflatten(a.T, &terms)
	}
	panic("loadAddr")
}

func (e *Exec) storeAddr(st *State, a *Addr, v Val) {
	ls := v.leaves()
	switch a.Kind {
	case aField:
		for k, s := range leafSorts(a.T) {
			key := fmt.Sprintf("%s#%d", a.Key, k)
			srt := arrSort(sRef, s)
			arr := e.heapGet(st, key, srt)
			e.heapSet(st, key, srt, sto(arr, a.Ref, ls[k]))
		}
	case aElem:
		for k, s := range leafSorts(a.T) {
			key := fmt.Sprintf("%s#%d", a.Key, k)
			srt := arrSort(sRef, arrSort(sBV64, s))
			arr := e.heapGet(st, key, srt)
			e.heapSet(st, key, srt, sto(arr, a.Ref, sto(sel(arr, a.Ref), a.Idx, ls[k])))
		}
	case aGlobal:
		for k, s := range leafSorts(a.T) {
			key := fmt.Sprintf("%s#%d", a.Key, k)
			e.heapSet(st, key, s, ls[k])
		}
	}
}

// newObject allocates a fresh ref; the caller initialises contents.
func (e *Exec) newRef(st *State, hint string) string {
	r := e.fresh("new_"+hint, sRef)
	e.assume(mkEq(r, app("+", st.alloc, fmt.Sprint(stride))))
	na := e.fresh("alloc", sRef)
	e.assume(mkEq(na, app("+", r, fmt.Sprint(stride))))
	st.alloc = na
	return r
}

// zeroInit assumes that the storage of type T at fresh ref is zero (fresh memory).
func (e *Exec) zeroInit(st *State, ref string, T types.Type) {
	e.storeAt(st, ref, T, zeroVal(T))
}

// ---------------------------------------------------------------- type tags & interfaces

func (e *Exec) typeTag(T types.Type) string {
	k := typeKey(T)
	id, ok := e.L.typeTags[k]
	if !ok {
		id = len(e.L.typeTags) + 1
		e.L.typeTags[k] = id
	}
	return fmt.Sprint(id)
}

// box builds the interface value holding v (of concrete type v.T).
func (e *Exec) box(v Val, ifaceT types.Type) Val {
	T := v.T
	name := sym("box_" + typeKey(T))
	sorts := leafSorts(T)
	e.once("boxfn:"+name, func() {
		e.emit("(declare-fun " + name + " (" + strings.Join(sorts, " ") + ") Iface)")
		for k, s := range sorts {
			e.emit("(declare-fun " + sym(fmt.Sprintf("unbox_%s#%d", typeKey(T), k)) + " (Iface) " + s + ")")
		}
	})
	ls := v.leaves()
	var t string
	if len(ls) == 0 {
		t = name
		// zero-arity function: declared as (declare-fun name () Iface)
	} else {
		t = app(name, ls...)
	}
	n := e.fresh("ifc", sIface)
	e.assume(mkEq(n, t))
	e.assume(mkEq(app("itype", n), e.typeTag(T)))
	for k := range sorts {
		e.assume(mkEq(app(sym(fmt.Sprintf("unbox_%s#%d", typeKey(T), k)), n), ls[k]))
	}
	if _, isPtr := T.Underlying().(*types.Pointer); isPtr {
		e.assume(mkEq(app("iref", n), ls[0]))
	}
	vc := v
	res := Val{T: ifaceT, S: n, Dyn: T, DynV: &vc}
	e.ifaceStatic[n] = res
	return res
}

// boxTerm: the interface value holding v as a pure term (no fresh constant), for use inside
// quantified contract expressions; the boxing axioms are stated once per type, quantified.
func (e *Exec) boxTerm(v Val, ifaceT types.Type) Val {
	T := v.T
	name := sym("box_" + typeKey(T))
	sorts := leafSorts(T)
	e.once("boxfn:"+name, func() {
		e.emit("(declare-fun " + name + " (" + strings.Join(sorts, " ") + ") Iface)")
		for k, s := range sorts {
			e.emit("(declare-fun " + sym(fmt.Sprintf("unbox_%s#%d", typeKey(T), k)) + " (Iface) " + s + ")")
		}
	})
	ls := v.leaves()
	if len(ls) == 0 {
		return Val{T: ifaceT, S: name, Dyn: T}
	}
	e.once("boxax:"+name, func() {
		var bs, as []string
		for k, s := range sorts {
			bs = append(bs, fmt.Sprintf("(bx%d %s)", k, s))
			as = append(as, fmt.Sprintf("bx%d", k))
		}
		t := app(name, as...)
		var cs []string
		cs = append(cs, mkEq(app("itype", t), e.typeTag(T)))
		for k := range sorts {
			cs = append(cs, mkEq(app(sym(fmt.Sprintf("unbox_%s#%d", typeKey(T), k)), t), as[k]))
		}
		e.emit("(assert (forall (" + strings.Join(bs, " ") + ") (! " + mkAnd(cs...) + " :pattern (" + t + "))))")
	})
	return Val{T: ifaceT, S: app(name, ls...), Dyn: T}
}

func (e *Exec) unbox(x Val, T types.Type) Val {
	if x.DynV != nil && types.Identical(x.Dyn, T) {
		return *x.DynV
	}
	sorts := leafSorts(T)
	name := sym("box_" + typeKey(T))
	e.once("boxfn:"+name, func() {
		e.emit("(declare-fun " + name + " (" + strings.Join(sorts, " ") + ") Iface)")
		for k, s := range sorts {
			e.emit("(declare-fun " + sym(fmt.Sprintf("unbox_%s#%d", typeKey(T), k)) + " (Iface) " + s + ")")
		}
	})
	var terms []string
	for k := range sorts {
		terms = append(terms, app(sym(fmt.Sprintf("unbox_%s#%d", typeKey(T), k)), x.S))
	}
	return unflatten(T, &terms)
}

// ---------------------------------------------------------------- strings

func (e *Exec) strLit(s string) string {
	if s == "" {
		return "str.empty"
	}
	e.L.nstr++
	key := "strlit:" + s
	var name string
	if n, ok := e.L.strNames[s]; ok {
		name = n
	} else {
		name = sym(fmt.Sprintf("strlit!%d", len(e.L.strNames)+1))
		e.L.strNames[s] = name
	}
	e.once(key, func() {
		e.emit("(declare-const " + name + " Str)")
		e.assume(mkEq(app("slen", name), bvLitI(64, int64(len(s)))))
		n := len(s)
		if n > 128 {
			n = 128
		}
		for i := 0; i < n; i++ {
			e.assume(mkEq(app("sat", name, bvLitI(64, int64(i))), bvLitI(8, int64(s[i]))))
		}
	})
	return name
}

// ---------------------------------------------------------------- fresh values with type invariants

func (e *Exec) freshVal(T types.Type, hint string, pc string) Val {
	var terms []string
	for _, s := range leafSorts(T) {
		terms = append(terms, e.fresh(hint, s))
	}
	v := unflatten(T, &terms)
	e.assumeTypeInv(v, pc)
	return v
}

// assumeTypeInv states what every value of its type satisfies (slice header sanity, ...).
func (e *Exec) assumeTypeInv(v Val, pc string) {
	switch kindOf(v.T) {
	case kSlice:
		max := bvLitI(64, 1<<40)
		zero := bvLitI(64, 0)
		e.assume(mkImp(pc, mkAnd(
			app("bvsle", zero, v.sOff()), app("bvsle", v.sOff(), max),
			app("bvsle", zero, v.sLen()), app("bvsle", v.sLen(), v.sCap()), app("bvsle", v.sCap(), max),
			mkImp(mkEq(v.sBase(), "0"), mkAnd(mkEq(v.sLen(), zero), mkEq(v.sCap(), zero))))))
	case kStruct, kTuple:
		for _, f := range v.F {
			e.assumeTypeInv(f, pc)
		}
	case kScalar:
		if scalarSort(v.T) == sStr && v.S != "" && v.S != "str.empty" {
			e.strInv(v.S, pc)
		}
	}
}

func (e *Exec) strInv(s, pc string) {
	e.assume(mkImp(pc, mkAnd(app("bvsle", bvLitI(64, 0), app("slen", s)), app("bvsle", app("slen", s), bvLitI(64, 1<<40)),
		mkImp(mkEq(app("slen", s), bvLitI(64, 0)), mkEq(s, "str.empty")))))
}

// ---------------------------------------------------------------- obligations

func (e *Exec) enabled(kind string) bool {
	if e.spec == nil {
		return true
	}
	return e.checks[kind]
}

func (e *Exec) oblige(kind, anchor, pc, cond, pos, desc string) {
	if cond == "true" && kind != "recover-frame" {
		return
	}
	base := fmt.Sprintf("%s/%s/%s", e.L.funcKeyShort(e.top), kind, anchor)
	e.ordCount[base]++
	id := fmt.Sprintf("%s#%d", base, e.ordCount[base])
	o := &Obligation{ID: id, Kind: kind, Func: e.L.funcKeyShort(e.top), Pos: pos, Desc: desc,
		Prefix: len(e.lines), Goal: mkImp(pc, cond)}
	if e.loopBodyOnly == 0 {
		e.obls = append(e.obls, o)
	}
	e.assume(mkImp(pc, cond))
}

func (e *Exec) cover(anchor, pc, pos string) {
	base := fmt.Sprintf("%s/cover/%s", e.L.funcKeyShort(e.top), anchor)
	e.ordCount[base]++
	o := &Obligation{ID: fmt.Sprintf("%s#%d", base, e.ordCount[base]), Kind: "cover", Func: e.L.funcKeyShort(e.top),
		Pos: pos, Prefix: len(e.lines), Goal: pc, Cover: true}
	e.obls = append(e.obls, o)
}

func (e *Exec) posOf(p token.Pos) string {
	if !p.IsValid() {
		return ""
	}
	ps := e.L.fset.Position(p)
	return fmt.Sprintf("%s:%d", strings.TrimPrefix(ps.Filename, "/repo/"), ps.Line)
}

// listOf: the abstract list of the first n strings of a []string value (labs), with the
// one-step unfolding stated for exactly this occurrence (no quantified recursion).
func (e *Exec) listOf(st *State, v Val, pc string) string {
	arr := sel(e.heapGet(st, elemKey(tString, 0), arrSort(sRef, arrSort(sBV64, sStr))), v.sBase())
	return e.labsTerm(arr, v.sOff(), v.sLen(), pc)
}

func (e *Exec) labsTerm(arr, off, n, pc string) string {
	t := app("labs", arr, off, n)
	if reBound.MatchString(t) {
		return t
	}
	e.once("labs:"+pc+":"+t, func() {
		prev := app("labs", arr, off, bvSub(n, bvLitI(64, 1)))
		last := sel(arr, bvAdd(off, bvSub(n, bvLitI(64, 1))))
		e.assume(mkImp(pc, mkAnd(
			mkImp(mkEq(n, bvLitI(64, 0)), mkEq(t, "lnil")),
			mkImp(app("bvsgt", n, bvLitI(64, 0)), mkEq(t, app("lsnoc", prev, last))))))
	})
	return t
}
