package services

// Hand replay for services.(*memcachedService).Handle/callpre/Payload (property C04): the data block of a
// set command was captured with a single Read of the buffered reader, which returns what is buffered at
// that moment: the payload in the event depended on how the client's bytes were split into segments.

import (
	"context"
	"net"
	"testing"
	"time"

	"github.com/honeytrap/honeytrap/event"
)

type handMcEvents struct{ ch chan event.Event }

func (c *handMcEvents) Send(e event.Event) { c.ch <- e }

func handMemcachedSet(t *testing.T, segments ...string) string {
	payload, _ := handMemcachedSetEvents(t, segments...)
	return payload
}

// handMemcachedSetEvents returns the payload of the memcached-set event and the commands reported up to
// and including a final "get k".
func handMemcachedSetEvents(t *testing.T, segments ...string) (string, []string) {
	t.Helper()
	evs := &handMcEvents{ch: make(chan event.Event, 16)}
	s := Memcached(WithChannel(evs))

	clt, srv := net.Pipe()
	defer clt.Close()
	go func() {
		defer srv.Close()
		s.Handle(context.Background(), srv)
	}()
	go func() {
		b := make([]byte, 256)
		for {
			if _, err := clt.Read(b); err != nil {
				return
			}
		}
	}()

	clt.SetWriteDeadline(time.Now().Add(3 * time.Second))
	for _, seg := range segments {
		if _, err := clt.Write([]byte(seg)); err != nil {
			t.Fatalf("write %q: %v", seg, err)
		}
		time.Sleep(20 * time.Millisecond)
	}
	payload := ""
	var commands []string
	for {
		select {
		case e := <-evs.ch:
			if e.Get("type") == "memcached-set" {
				payload = e.Get("payload")
			}
			if e.Get("type") == "memcached-command" {
				commands = append(commands, e.Get("memcached.command"))
				if e.Get("memcached.command") == "get k" {
					return payload, commands
				}
			}
		case <-time.After(2 * time.Second):
			t.Fatalf("no final get event for segments %q (commands so far %q)", segments, commands)
		}
	}
}

func TestHandMemcachedSetPayloadIndependentOfSegments(t *testing.T) {
	whole, cmdsWhole := handMemcachedSetEvents(t, "set k 0 0 10\r\n0123456789\r\nget k\r\n")
	split, cmdsSplit := handMemcachedSetEvents(t, "set k 0 0 10\r\n01234", "56789\r\n", "get k\r\n")
	if whole != split {
		t.Fatalf("payload captured for the same set command: %q when sent in one segment, %q when the data block is split", whole, split)
	}
	if len(cmdsWhole) != 2 || len(cmdsSplit) != 2 {
		t.Fatalf("commands reported for \"set\", \"get\": %q in one segment, %q when split (the end of the data block is reported as an empty command)", cmdsWhole, cmdsSplit)
	}
}
