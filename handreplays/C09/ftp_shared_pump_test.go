package ftp

// Hand replay for ftp.(*ftpService).Handle/callpre/(*Server).newConn/fresh-channel and
// Handle/post/pump-ends (properties C09 and C03): all connections shared ONE command-log channel, and
// every connection added a goroutine ranging over it that never ends. (1) A command typed on one
// session is reported by whichever pump receives it, with that pump's session id and addresses;
// (2) each past connection leaves a goroutine behind. After the fix each connection has its own channel,
// closed when the session ends.

import (
	"bufio"
	"fmt"
	"net"
	"runtime"
	"sync"
	"testing"
	"time"

	"github.com/honeytrap/honeytrap/event"
	"github.com/honeytrap/honeytrap/pushers"
)

type recChannel struct {
	mu  sync.Mutex
	evs []event.Event
}

func (r *recChannel) Send(e event.Event) { r.mu.Lock(); r.evs = append(r.evs, e); r.mu.Unlock() }

var _ pushers.Channel = (*recChannel)(nil)

type addrConn struct {
	net.Conn
	raddr net.Addr
}

func (a addrConn) RemoteAddr() net.Addr { return a.raddr }
func (a addrConn) LocalAddr() net.Addr {
	return &net.TCPAddr{IP: net.IPv4(10, 0, 0, 1), Port: 21}
}

func session(t *testing.T, s *ftpService, ip string, lines int) (done chan struct{}) {
	clt, srv := net.Pipe()
	done = make(chan struct{})
	go func() {
		s.Handle(nil, addrConn{srv, &net.TCPAddr{IP: net.ParseIP(ip), Port: 40000}})
		close(done)
	}()
	go func() {
		r := bufio.NewReader(clt)
		r.ReadString('\n') // welcome
		for i := 0; i < lines; i++ {
			fmt.Fprintf(clt, "NOOP %s-%d\r\n", ip, i)
			r.ReadString('\n')
		}
		clt.Close()
	}()
	return done
}

func TestHandFTPSharedPump(t *testing.T) {
	s := FTP().(*ftpService)
	rec := &recChannel{}
	s.SetChannel(rec)
	before := runtime.NumGoroutine()
	a := session(t, s, "192.0.2.1", 40)
	b := session(t, s, "192.0.2.2", 40)
	<-a
	<-b
	time.Sleep(200 * time.Millisecond)
	rec.mu.Lock()
	wrong := 0
	for _, e := range rec.evs {
		cmd := e.Get("ftp.command")
		src := e.Get("source-ip")
		if len(cmd) > 5 && cmd[:5] == "NOOP " && len(cmd) >= 5+len(src) && cmd[5:5+len(src)] != src {
			wrong++
		}
	}
	n := len(rec.evs)
	rec.mu.Unlock()
	if wrong > 0 {
		t.Errorf("%d of %d command events carry the address of the other session", wrong, n)
	}
	if after := runtime.NumGoroutine(); after > before+1 {
		t.Errorf("%d goroutines before the two sessions, %d after they ended", before, after)
	}
}
