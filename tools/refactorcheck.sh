#!/bin/bash
# usage: refactorcheck.sh <patch.diff> <PROP> [<PROP>...] — applies a (behaviour-preserving) patch to a scratch
# copy of /repo and runs the quick checks of the given properties on it; any VIOLATION is a false alarm.
export GOFLAGS=-mod=mod GOPROXY=off GOSUMDB=off GOTOOLCHAIN=local
P=$1; shift
D=$(mktemp -d /tmp/refchk.XXXXXX); trap 'rm -rf "$D"' EXIT
cp -r /repo/. "$D/"
(cd "$D" && git apply "$P") || { echo "PATCH-DOES-NOT-APPLY $P"; exit 2; }
for prop in "$@"; do
  out=$(cd /verif && ./bin/govc check -no-evidence -repo "$D" -tier quick "$prop" 2>&1)
  n=$(echo "$out" | grep -c '^VIOLATION')
  echo "$(basename $P) $prop: $n violation(s) $(echo "$out" | grep '^VIOLATION' | sed 's|.*replays/[A-Z0-9]*/||; s|\.json.*||' | head -3 | tr '\n' ' ')"
done
