#!/usr/bin/env python3
# delta-debug the assertions of an unsat SMT script down to a minimal unsat subset
import sys,subprocess,tempfile,os
lines=open(sys.argv[1]).read().split('\n')
idx=[i for i,l in enumerate(lines) if l.startswith('(assert')]
def unsat(keep):
    ks=set(keep)
    txt='\n'.join(l for i,l in enumerate(lines) if (i not in idx_set or i in ks) and not l.startswith('(get-value'))
    f=tempfile.NamedTemporaryFile('w',suffix='.smt2',delete=False); f.write(txt); f.close()
    r=subprocess.run(['z3-new','-T:5',f.name],capture_output=True,text=True).stdout.split('\n')[0]
    os.unlink(f.name)
    return r=='unsat'
idx_set=set(idx)
keep=list(idx)
assert unsat(keep)
n=2
while len(keep)>=2:
    chunk=max(1,len(keep)//n); changed=False
    for s in range(0,len(keep),chunk):
        trial=keep[:s]+keep[s+chunk:]
        if trial and unsat(trial):
            keep=trial; n=max(n-1,2); changed=True; break
    if not changed:
        if chunk==1: break
        n=min(len(keep),n*2)
for i in keep: print(i+1, lines[i][:400])
