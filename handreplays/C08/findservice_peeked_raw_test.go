package server

// Hand replay for findService/post/stream-raw#2 (property C08): a port with the services
// [detector that rejects, detector-less]; the client's first bytes are consumed by the peek and
// must still reach the service that is chosen. Run through an overlay:
//   go test -overlay ov.json -vet=off -run TestHandFindServicePeek ./server
// Before the fix it prints HAND-LOST, after it HAND-INTACT.

import (
	"context"
	"fmt"
	"io"
	"net"
	"testing"
	"time"

	"github.com/honeytrap/honeytrap/pushers"
)

type handConn struct {
	data []byte
}

func (c *handConn) Read(p []byte) (int, error) {
	if len(c.data) == 0 {
		return 0, io.EOF
	}
	n := copy(p, c.data)
	c.data = c.data[n:]
	return n, nil
}
func (c *handConn) Write(p []byte) (int, error)      { return len(p), nil }
func (c *handConn) Close() error                     { return nil }
func (c *handConn) LocalAddr() net.Addr              { return &net.TCPAddr{IP: net.IPv4(127, 0, 0, 1), Port: 80} }
func (c *handConn) RemoteAddr() net.Addr             { return &net.TCPAddr{IP: net.IPv4(10, 0, 0, 9), Port: 4000} }
func (c *handConn) SetDeadline(time.Time) error      { return nil }
func (c *handConn) SetReadDeadline(time.Time) error  { return nil }
func (c *handConn) SetWriteDeadline(time.Time) error { return nil }

type handDetector struct{}

func (handDetector) Handle(context.Context, net.Conn) error { return nil }
func (handDetector) SetChannel(pushers.Channel)             {}
func (handDetector) CanHandle([]byte) bool                  { return false }

type handPlain struct{}

func (handPlain) Handle(context.Context, net.Conn) error { return nil }
func (handPlain) SetChannel(pushers.Channel)             {}

func TestHandFindServicePeek(t *testing.T) {
	hc := &Honeytrap{ports: map[net.Addr][]*ServiceMap{
		&net.TCPAddr{Port: 80}: {
			{Service: handDetector{}, Name: "detector"},
			{Service: handPlain{}, Name: "plain"},
		},
	}}
	sm, c2, err := hc.findService(&handConn{data: []byte("hello world")})
	if err != nil {
		fmt.Println("HAND-ERROR", err)
		return
	}
	buf := make([]byte, 64)
	n, _ := c2.Read(buf)
	if string(buf[:n]) == "hello world" {
		fmt.Println("HAND-INTACT", sm.Name, string(buf[:n]))
	} else {
		fmt.Printf("HAND-LOST %s got %q\n", sm.Name, buf[:n])
	}
}
