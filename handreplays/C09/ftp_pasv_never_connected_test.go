package ftp

// Hand replay for ftp.(*ftpPassiveSocket).GoListenAndServe/post/accept-bounded (property C09): a command
// that uses the passive data connection (LIST, RETR, STOR ...) waits in waitForOpenSocket until the client
// connects to the passive port. A client that never does, and then drops the control connection, left the
// session's handler blocked for ever and the listener open: there was no bound on the wait.

import (
	"net"
	"strconv"
	"testing"
	"time"
)

func TestHandFTPPassiveWaitIsBounded(t *testing.T) {
	old := passiveAcceptTimeoutForTest(500 * time.Millisecond)
	defer old()

	ds, err := newPassiveSocket("127.0.0.1", 0, "sess", nil)
	if err != nil {
		t.Fatal(err)
	}
	port := ds.Port()

	done := make(chan error, 1)
	go func() {
		// what LIST does with the data connection
		_, err := ds.Write([]byte("listing\r\n"))
		done <- err
	}()

	select {
	case err := <-done:
		if err == nil {
			t.Fatalf("write on a passive socket nobody connected to succeeded")
		}
	case <-time.After(3 * time.Second):
		t.Fatalf("the command is still waiting for the data connection after 3s (no bound on the wait): the handler never returns")
	}

	l, err := net.Listen("tcp", net.JoinHostPort("127.0.0.1", itoa(port)))
	if err != nil {
		t.Fatalf("the passive listener on port %d is still open: %v", port, err)
	}
	l.Close()
}

// helpers: on the tree before the fix there is no timeout to set; replace the body of
// passiveAcceptTimeoutForTest by `return func() {}` to replay the defect there.
func itoa(i int) string { return strconv.Itoa(i) }

func passiveAcceptTimeoutForTest(d time.Duration) func() {
	old := passiveAcceptTimeout
	passiveAcceptTimeout = d
	return func() { passiveAcceptTimeout = old }
}
