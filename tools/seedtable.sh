#!/bin/bash
# for every seeded change: apply it to a scratch copy, run the property's quick check, and record which
# obligations fail in seeded/<name>/caught.txt (used for the table in DESIGN.md 9.5)
export GOFLAGS=-mod=mod GOPROXY=off GOSUMDB=off GOTOOLCHAIN=local
cd /verif
for d in seeded/*/; do
  [ -f "$d/patch.diff" ] || continue
  [ -s "$d/caught.txt" ] && [ "$1" != "-f" ] && continue
  prop=$(basename "$d" | cut -d- -f1)
  D=$(mktemp -d /tmp/seedtab.XXXXXX); cp -r /repo/. "$D/"
  if (cd "$D" && patch -p1 -s < "/verif/$d/patch.diff" >/dev/null 2>&1); then
    ./bin/govc check -no-evidence -repo "$D" -tier quick "$prop" 2>&1 | grep '^VIOLATION' | sed 's|.*replays/[A-Z0-9]*/||; s|\.json.*||' | sort -u > "$d/caught.txt"
  else
    echo "PATCH-DOES-NOT-APPLY" > "$d/caught.txt"
  fi
  echo "$(basename $d): $(tr '\n' ' ' < $d/caught.txt | cut -c1-160)"
  rm -rf "$D"
done
