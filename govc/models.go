package main

import (
	"fmt"
	"go/types"

	"golang.org/x/tools/go/ssa"
)

// models: library functions with a built-in semantic model (instead of a contract).
var models = map[string]func(fr *Frame, in ssa.Instruction, args []Val, resT types.Type) (Val, bool){}

func (fr *Frame) model(in ssa.Instruction, callee *ssa.Function, args []Val, resT types.Type) (Val, bool) {
	m, ok := models[fr.e.L.funcKey(callee)]
	if !ok {
		return Val{}, false
	}
	return m(fr, in, args, resT)
}

func (env *SpecEnv) applyUF(uf *UFDecl, args []*SExpr) (Val, error) {
	e := env.e
	var sorts []string
	var terms []string
	for i, a := range args {
		v, err := env.eval(a)
		if err != nil {
			return Val{}, err
		}
		if i < len(uf.Params) {
			if T, err := env.resolveType(uf.Params[i]); err == nil {
				v, _ = env.coerce(v, T)
			}
		}
		for _, l := range v.leaves() {
			terms = append(terms, l)
		}
		sorts = append(sorts, leafSorts(v.T)...)
	}
	T, err := env.resolveType(uf.Ret)
	if err != nil {
		return Val{}, err
	}
	name := sym("uf_" + uf.Name)
	e.once("uf:"+name, func() {
		e.emit("(declare-fun " + name + " (" + joinSp(sorts) + ") " + scalarSort(T) + ")")
		for _, ax := range e.L.specs.Axioms[uf.Name] {
			aenv := &SpecEnv{e: e, pkg: env.pkg, vars: map[string]Val{}, st: env.st, old: env.old}
			if t, err := aenv.evalBool(ax.E); err == nil {
				e.assume(t)
				e.flag("axiom: " + ax.Src)
			} else {
				e.errs = append(e.errs, fmt.Sprintf("%s: %v", ax.Line, err))
			}
		}
	})
	if len(terms) == 0 {
		return Val{T: T, S: name}, nil
	}
	t := app(name, terms...)
	if (uf.HasRange || uf.Len >= 0) && !reBound.MatchString(t) {
		e.once("ufattr:"+t, func() {
			if uf.HasRange {
				if w, _, ok := intInfo(T); ok {
					e.assume(mkAnd(app("bvsle", bvLitI(w, uf.Lo), t), app("bvsle", t, bvLitI(w, uf.Hi))))
				}
			}
			if uf.Len >= 0 {
				e.assume(mkEq(app("slen", t), bvLitI(64, uf.Len)))
			}
		})
	}
	return Val{T: T, S: t}, nil
}

func joinSp(s []string) string {
	out := ""
	for i, x := range s {
		if i > 0 {
			out += " "
		}
		out += x
	}
	return out
}
