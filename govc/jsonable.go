package main

import (
	"fmt"
	"go/types"
	"sort"
	"strings"

	"golang.org/x/tools/go/ssa"
)

// jsonable: encoding/json.Marshal cannot fail on a value of static type T (no chan, func,
// complex or unsafe pointer anywhere inside; map keys are strings, integers or TextMarshalers).
// Interface-typed components are not decided here (reported as "dynamic").
func jsonable(T types.Type, seen map[types.Type]bool) (ok bool, dynamic bool, why string) {
	if seen[T] {
		return true, false, ""
	}
	seen[T] = true
	// types with their own marshaller are taken to succeed (time.Time, net.IP via []byte, ...)
	if hasMethod(T, "MarshalJSON") || hasMethod(T, "MarshalText") {
		return true, false, ""
	}
	switch u := T.Underlying().(type) {
	case *types.Basic:
		switch u.Kind() {
		case types.Complex64, types.Complex128, types.UnsafePointer:
			return false, false, "unsupported basic type " + u.String()
		}
		return true, false, ""
	case *types.Pointer:
		return jsonable(u.Elem(), seen)
	case *types.Slice:
		return jsonable(u.Elem(), seen)
	case *types.Array:
		return jsonable(u.Elem(), seen)
	case *types.Map:
		kt := u.Key()
		if b, isB := kt.Underlying().(*types.Basic); !(isB && b.Info()&(types.IsString|types.IsInteger) != 0) && !hasMethod(kt, "MarshalText") {
			return false, false, "map key type " + kt.String()
		}
		return jsonable(u.Elem(), seen)
	case *types.Struct:
		dyn := false
		for i := 0; i < u.NumFields(); i++ {
			f := u.Field(i)
			if !f.Exported() {
				continue
			}
			if tag := u.Tag(i); strings.Contains(tag, `json:"-"`) {
				continue
			}
			o, d, w := jsonable(f.Type(), seen)
			if !o {
				return false, false, "field " + f.Name() + ": " + w
			}
			dyn = dyn || d
		}
		return true, dyn, ""
	case *types.Interface:
		return true, true, ""
	case *types.Chan, *types.Signature:
		return false, false, "unsupported type " + T.String()
	}
	return true, true, ""
}

func hasMethod(T types.Type, name string) bool {
	for _, t := range []types.Type{T, types.NewPointer(T)} {
		ms := types.NewMethodSet(t)
		for i := 0; i < ms.Len(); i++ {
			if ms.At(i).Obj().Name() == name {
				return true
			}
		}
	}
	return false
}

// jsonableSweep: every value stored into an event anywhere in the module, by its static type.
func (L *Loader) jsonableSweep() (obls []*Obligation, dynamicSites []string) {
	targets := map[string]int{ // function key -> index of the value argument
		modulePath + "/event.Custom":        1,
		modulePath + "/event.(Event).Store": 2,
	}
	type site struct {
		pos, fn string
		T       types.Type
		dyn     bool
	}
	var sites []site
	for fn := range L.allFuncs {
		p := pkgOf(fn)
		if p == nil || !strings.HasPrefix(p.Pkg.Path(), modulePath) {
			continue
		}
		for _, b := range fn.Blocks {
			for _, in := range b.Instrs {
				ci, ok := in.(ssa.CallInstruction)
				if !ok {
					continue
				}
				callee := ci.Common().StaticCallee()
				if callee == nil {
					continue
				}
				idx, isT := targets[L.funcKey(callee)]
				if !isT || idx >= len(ci.Common().Args) {
					continue
				}
				arg := ci.Common().Args[idx]
				pos := L.fset.Position(in.Pos())
				ps := fmt.Sprintf("%s:%d", strings.TrimPrefix(pos.Filename, L.repoDir+"/"), pos.Line)
				if mi, ok := arg.(*ssa.MakeInterface); ok {
					sites = append(sites, site{ps, L.funcKeyShort(fn), mi.X.Type(), false})
				} else if c, ok := arg.(*ssa.Const); ok && c.Value == nil {
					sites = append(sites, site{ps, L.funcKeyShort(fn), types.Typ[types.UntypedNil], false})
				} else {
					sites = append(sites, site{ps, L.funcKeyShort(fn), arg.Type(), true})
				}
			}
		}
	}
	sort.Slice(sites, func(i, j int) bool { return sites[i].pos < sites[j].pos })
	n := map[string]int{}
	for _, s := range sites {
		if s.dyn {
			dynamicSites = append(dynamicSites, s.pos+" ("+s.T.String()+")")
			continue
		}
		ok, dyn, why := jsonable(s.T, map[types.Type]bool{})
		if dyn {
			dynamicSites = append(dynamicSites, s.pos+" (inside "+s.T.String()+")")
		}
		goal := "true"
		desc := "value of static type " + s.T.String() + " stored into an event is JSON-serialisable"
		if !ok {
			goal = "false"
			desc = "value of static type " + s.T.String() + " stored into an event cannot be serialised: " + why
		}
		base := fmt.Sprintf("%s/jsonable/%s", s.fn, shortTypeKey(s.T))
		n[base]++
		obls = append(obls, &Obligation{ID: fmt.Sprintf("%s#%d", base, n[base]), Kind: "jsonable", Func: s.fn, Pos: s.pos, Desc: desc,
			Prefix: 1, Goal: goal, Script: []string{"(set-logic ALL)"}})
	}
	return
}
