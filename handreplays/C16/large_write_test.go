package agent

// Hand replay for agent.(*agentConnection).Write/onsend/fits-frame (property C16): a service writing
// more than a frame can hold in one Write produced one data message whose 16-bit frame length (and
// 16-bit payload length) wrapped around: the agent received a frame that announces the length modulo
// 65536 followed by bytes it can only misread as further frames. Before the fix the marshalled message
// is longer than 65535 bytes; after it the write is split into messages that each fit.

import (
	"bytes"
	"net"
	"testing"
)

func TestHandLargeWrite(t *testing.T) {
	out := make(chan interface{}, 16)
	ac := &agentConnection{
		Laddr: &net.TCPAddr{IP: net.IPv4(10, 0, 0, 1).To4(), Port: 80},
		Raddr: &net.TCPAddr{IP: net.IPv4(192, 0, 2, 7).To4(), Port: 40000},
		in:    make(chan []byte),
		out:   out,
	}
	b := make([]byte, 70000)
	for i := range b {
		b[i] = byte(i % 251)
	}
	n, err := ac.Write(b)
	if err != nil || n != len(b) {
		t.Fatalf("Write: %d, %v", n, err)
	}
	close(out)
	var got []byte
	for m := range out {
		rw := m.(ReadWriteTCP)
		data, _ := rw.MarshalBinary()
		if len(data) > 65535 {
			t.Errorf("a message of %d bytes does not fit the 16-bit frame length (sent as %d)", len(data), uint16(len(data)))
		}
		var back ReadWriteTCP
		back.UnmarshalBinary(data)
		got = append(got, back.Payload...)
	}
	if !bytes.Equal(got, b) {
		t.Errorf("the agent would receive %d bytes, the service wrote %d", len(got), len(b))
	}
}
