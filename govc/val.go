package main

import (
	"fmt"
	"go/types"
	"regexp"
	"strings"

	"golang.org/x/tools/go/ssa"
)

// Val is the symbolic value of one Go value: a tree whose leaves are SMT terms.
type Val struct {
	T        types.Type
	S        string // scalar term (scalar kinds)
	F        []Val  // components (struct fields / slice parts / tuple members / array leaf-arrays)
	A        *Addr  // non first-class address (pointer to a scalar field / element)
	GhostArr bool   // S is the SMT array of a ghost map field
	NN       bool   // pointer/interface known (or assumed, see DESIGN A2) to be non-nil

	// static knowledge
	Fn    *ssa.Function // statically known function (closures, function values)
	Binds []Val         // closure bindings when Fn is a closure
	Dyn   types.Type    // statically known dynamic type of an interface value
	DynV  *Val          // the boxed value when statically known
}

type addrKind int

const (
	aField  addrKind = iota // leaf field f of struct object Ref
	aElem                   // element Idx of backing array Ref
	aGlobal                 // package-level variable
)

type Addr struct {
	Kind addrKind
	T    types.Type // type stored at the address
	Ref  string     // object ref (aField) / base ref (aElem)
	Key  string     // heap key prefix (without #k)
	Idx  string     // aElem: absolute index (BV64)
}

type kind int

const (
	kScalar kind = iota
	kSlice
	kStruct
	kArray
	kTuple
)

func kindOf(t types.Type) kind {
	switch u := t.Underlying().(type) {
	case *types.Slice:
		return kSlice
	case *types.Struct:
		return kStruct
	case *types.Array:
		return kArray
	case *types.Tuple:
		return kTuple
	default:
		_ = u
		return kScalar
	}
}

func isAggregate(t types.Type) bool {
	k := kindOf(t)
	return k == kStruct || k == kArray
}

func intInfo(t types.Type) (w int, signed bool, ok bool) {
	b, isb := t.Underlying().(*types.Basic)
	if !isb {
		return 0, false, false
	}
	switch b.Kind() {
	case types.Int8:
		return 8, true, true
	case types.Int16:
		return 16, true, true
	case types.Int32:
		return 32, true, true
	case types.Int64, types.Int, types.UntypedInt, types.UntypedRune:
		return 64, true, true
	case types.Uint8:
		return 8, false, true
	case types.Uint16:
		return 16, false, true
	case types.Uint32:
		return 32, false, true
	case types.Uint64, types.Uint, types.Uintptr:
		return 64, false, true
	}
	return 0, false, false
}

// scalarSort gives the SMT sort of a scalar-kind Go type.
// listType: the spec-only type of abstract string lists (sort Lst): nil / snoc.
var listType = types.NewNamed(types.NewTypeName(0, nil, "list", nil), types.Typ[types.UnsafePointer], nil)

const sLst = "Lst"

func scalarSort(t types.Type) string {
	if t == types.Type(listType) {
		return sLst
	}
	switch u := t.Underlying().(type) {
	case *types.Basic:
		if w, _, ok := intInfo(u); ok {
			return bvSort(w)
		}
		switch u.Kind() {
		case types.Bool, types.UntypedBool:
			return sBool
		case types.String, types.UntypedString:
			return sStr
		case types.Float32, types.Float64, types.UntypedFloat, types.Complex64, types.Complex128:
			return sF64
		case types.UnsafePointer, types.UntypedNil:
			return sRef
		}
		return sRef
	case *types.Interface:
		return sIface
	case *types.TypeParam:
		return sIface
	}
	return sRef // pointer, map, chan, func
}

// leafSorts lists the SMT sorts of the flattened leaves of a value of type t.
func leafSorts(t types.Type) []string {
	switch u := t.Underlying().(type) {
	case *types.Slice:
		return []string{sRef, sBV64, sBV64, sBV64}
	case *types.Struct:
		var out []string
		for i := 0; i < u.NumFields(); i++ {
			out = append(out, leafSorts(u.Field(i).Type())...)
		}
		return out
	case *types.Array:
		var out []string
		for _, s := range leafSorts(u.Elem()) {
			out = append(out, arrSort(sBV64, s))
		}
		return out
	case *types.Tuple:
		var out []string
		for i := 0; i < u.Len(); i++ {
			out = append(out, leafSorts(u.At(i).Type())...)
		}
		return out
	}
	return []string{scalarSort(t)}
}

func (v Val) leaves() []string {
	switch kindOf(v.T) {
	case kScalar:
		return []string{v.S}
	}
	var out []string
	for _, f := range v.F {
		out = append(out, f.leaves()...)
	}
	return out
}

// unflatten rebuilds a Val of type t from leaf terms (consumes from *terms).
func unflatten(t types.Type, terms *[]string) Val {
	take := func() string {
		s := (*terms)[0]
		*terms = (*terms)[1:]
		return s
	}
	switch u := t.Underlying().(type) {
	case *types.Slice:
		v := Val{T: t}
		v.F = []Val{{T: tRef, S: take()}, {T: tInt, S: take()}, {T: tInt, S: take()}, {T: tInt, S: take()}}
		return v
	case *types.Struct:
		v := Val{T: t}
		for i := 0; i < u.NumFields(); i++ {
			v.F = append(v.F, unflatten(u.Field(i).Type(), terms))
		}
		return v
	case *types.Array:
		v := Val{T: t}
		for range leafSorts(u.Elem()) {
			v.F = append(v.F, Val{T: tArrLeaf, S: take()})
		}
		return v
	case *types.Tuple:
		v := Val{T: t}
		for i := 0; i < u.Len(); i++ {
			v.F = append(v.F, unflatten(u.At(i).Type(), terms))
		}
		return v
	}
	return Val{T: t, S: take()}
}

var (
	tInt     = types.Typ[types.Int]
	tBool    = types.Typ[types.Bool]
	tByte    = types.Typ[types.Uint8]
	tString  = types.Typ[types.String]
	tRef     = types.Typ[types.UnsafePointer]
	tArrLeaf = types.Typ[types.UnsafePointer] // placeholder type for array leaf terms
)

func (v Val) sBase() string { return v.F[0].S }
func (v Val) sOff() string  { return v.F[1].S }
func (v Val) sLen() string  { return v.F[2].S }
func (v Val) sCap() string  { return v.F[3].S }

func mkSlice(t types.Type, base, off, ln, cp string) Val {
	return Val{T: t, F: []Val{{T: tRef, S: base}, {T: tInt, S: off}, {T: tInt, S: ln}, {T: tInt, S: cp}}}
}

// typeKey is a stable printable key for a type (used in heap keys and type tags).
func typeKey(t types.Type) string {
	return canonBasic(types.TypeString(types.Unalias(t), func(p *types.Package) string { return p.Path() }), t)
}

func shortTypeKey(t types.Type) string {
	return canonBasic(types.TypeString(types.Unalias(t), func(p *types.Package) string { return p.Name() }), t)
}

// canonBasic maps the predeclared aliases byte/rune to uint8/int32 so that heap keys agree.
func canonBasic(s string, t types.Type) string {
	if b, ok := types.Unalias(t).(*types.Basic); ok {
		switch b.Kind() {
		case types.Uint8:
			return "uint8"
		case types.Int32:
			return "int32"
		}
	}
	if strings.Contains(s, "byte") || strings.Contains(s, "rune") {
		s = reByte.ReplaceAllString(s, "uint8")
		s = reRune.ReplaceAllString(s, "int32")
	}
	return s
}

var reByte = regexp.MustCompile(`\bbyte\b`)
var reRune = regexp.MustCompile(`\brune\b`)

func zeroScalar(t types.Type) string {
	s := scalarSort(t)
	switch {
	case s == sBool:
		return "false"
	case s == sRef:
		return "0"
	case s == sStr:
		return "str.empty"
	case s == sIface:
		return "inil"
	case s == sF64:
		return "f64.zero"
	case strings.HasPrefix(s, "(_ BitVec"):
		w, _, _ := intInfo(t)
		return bvLitI(w, 0)
	}
	panic("zeroScalar: " + s)
}

func zeroLeaf(sort string) string {
	switch {
	case sort == sBool:
		return "false"
	case sort == sRef:
		return "0"
	case sort == sStr:
		return "str.empty"
	case sort == sIface:
		return "inil"
	case sort == sF64:
		return "f64.zero"
	case sort == sLst:
		return "lnil"
	case strings.HasPrefix(sort, "(_ BitVec "):
		var w int
		fmt.Sscanf(sort, "(_ BitVec %d)", &w)
		return bvLitI(w, 0)
	case strings.HasPrefix(sort, "(Array "):
		// (Array idx el)
		_, el := splitArrSort(sort)
		return constArr(sort, zeroLeaf(el))
	}
	panic("zeroLeaf: " + sort)
}

func splitArrSort(s string) (idx, el string) {
	inner := s[len("(Array ") : len(s)-1]
	depth := 0
	for i := 0; i < len(inner); i++ {
		switch inner[i] {
		case '(':
			depth++
		case ')':
			depth--
		case ' ':
			if depth == 0 {
				return inner[:i], inner[i+1:]
			}
		}
	}
	panic("bad array sort " + s)
}

func zeroVal(t types.Type) Val {
	var terms []string
	for _, s := range leafSorts(t) {
		terms = append(terms, zeroLeaf(s))
	}
	return unflatten(t, &terms)
}
