package ftp

// Hand replay for ftp.(*Fs).ChangeDir/variant/recursion (properties C01/C11): the driver's ChangeDir
// called itself instead of the embedded Htfs.ChangeDir, so every CWD/CDUP command overflowed the
// stack - a fatal error that no recover() catches and that takes the whole sensor down.
// Before the fix this test binary dies with "fatal error: stack overflow" (the stack limit is lowered
// so that it dies quickly); after it the test passes.

import (
	"io/ioutil"
	"os"
	"path/filepath"
	"runtime/debug"
	"testing"

	"github.com/honeytrap/honeytrap/services/filesystem"
)

func TestHandChangeDirRecursion(t *testing.T) {
	debug.SetMaxStack(1 << 20)
	base, _ := ioutil.TempDir("", "c11")
	defer os.RemoveAll(base)
	os.MkdirAll(filepath.Join(base, "ftp", "root", "sub"), 0700)
	fs, err := filesystem.New(base, "ftp", "root")
	if err != nil {
		t.Fatal(err)
	}
	d := NewFileDriver(fs)
	if err := d.ChangeDir("/sub"); err != nil {
		t.Fatal(err)
	}
	if d.CurDir() != "/sub" {
		t.Fatalf("cwd %q", d.CurDir())
	}
}
