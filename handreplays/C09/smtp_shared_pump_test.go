package smtp

// Hand replay for smtp.(*Service).Handle (properties C09 and C03): all connections share one mail channel
// (and the handler sits on the global DefaultServeMux), and every connection starts a pump goroutine that
// never ends. (1) A mail received on one session is reported by whichever pump reads the channel first,
// with that pump's connection addresses - possibly a connection that ended long ago; (2) every past
// connection leaves a goroutine behind.

import (
	"fmt"
	"net"
	nsmtp "net/smtp"
	"runtime"
	"sync"
	"testing"
	"time"

	"github.com/honeytrap/honeytrap/event"
)

type recCh struct {
	mu  sync.Mutex
	evs []event.Event
}

func (r *recCh) Send(e event.Event) { r.mu.Lock(); r.evs = append(r.evs, e); r.mu.Unlock() }

type srcConn struct {
	net.Conn
	ip string
}

func (a srcConn) RemoteAddr() net.Addr { return &net.TCPAddr{IP: net.ParseIP(a.ip), Port: 40000} }
func (a srcConn) LocalAddr() net.Addr  { return &net.TCPAddr{IP: net.IPv4(10, 0, 0, 1), Port: 25} }

func mailSession(t *testing.T, s *Service, ip string, mails int) {
	clt, srv := net.Pipe()
	done := make(chan struct{})
	go func() { s.Handle(nil, srcConn{srv, ip}); close(done) }()
	c, err := nsmtp.NewClient(clt, "testing.com")
	if err != nil {
		t.Fatal(err)
	}
	for i := 0; i < mails; i++ {
		if err := c.Mail("sender@testing.com"); err != nil {
			t.Fatal(err)
		}
		c.Rcpt("rcpt@example.net")
		wc, err := c.Data()
		if err != nil {
			t.Fatal(err)
		}
		fmt.Fprintf(wc, "Subject: from %s\r\n\r\nbody\r\n", ip)
		wc.Close()
	}
	clt.Close()
	select {
	case <-done:
	case <-time.After(3 * time.Second):
		t.Fatalf("session %s did not end", ip)
	}
}

func TestHandSMTPSharedPump(t *testing.T) {
	s := SMTP().(*Service)
	rec := &recCh{}
	s.SetChannel(rec)
	before := runtime.NumGoroutine()
	mailSession(t, s, "192.0.2.1", 1) // an earlier connection; its pump stays behind
	mailSession(t, s, "192.0.2.2", 8)
	time.Sleep(200 * time.Millisecond)
	rec.mu.Lock()
	wrong, mails := 0, 0
	for _, e := range rec.evs {
		if e.Get("type") != "email" {
			continue
		}
		mails++
		if want := "from " + e.Get("source-ip"); e.Get("smtp.Subject") != want {
			wrong++
		}
	}
	rec.mu.Unlock()
	if wrong > 0 {
		t.Errorf("%d of %d mail events carry the address of another connection", wrong, mails)
	}
	if after := runtime.NumGoroutine(); after > before+1 {
		t.Errorf("%d goroutines before the two sessions, %d after they ended", before, after)
	}
}
