package main

import (
	"flag"
	"fmt"
	"os"
	"path/filepath"
	"regexp"
	"sort"
	"strings"
	"time"
)

func main() {
	if len(os.Args) < 2 {
		fmt.Fprintln(os.Stderr, "usage: govc verify|check ...")
		os.Exit(2)
	}
	switch os.Args[1] {
	case "verify":
		cmdVerify(os.Args[2:])
	case "check":
		cmdCheck(os.Args[2:])
	default:
		fmt.Fprintln(os.Stderr, "unknown command")
		os.Exit(2)
	}
}

// verify: developer command — verify the functions matching a regexp and print verdicts.
func cmdVerify(args []string) {
	fs := flag.NewFlagSet("verify", flag.ExitOnError)
	repo := fs.String("repo", "/repo", "repository")
	pk := fs.String("pkgs", "", "comma separated package patterns")
	fre := fs.String("funcs", ".*", "regexp on short function keys")
	dump := fs.String("dump", "", "obligation id substring whose script is printed")
	keep := fs.Bool("keep", false, "keep smt files")
	timeout := fs.Float64("timeout", 10, "seconds")
	nospec := fs.Bool("sweep", false, "also verify functions without contract (safety sweep)")
	dbg := fs.Bool("panic", false, "do not recover engine panics")
	fs.Parse(args)
	debugPanics = *dbg
	L, err := load(*repo, strings.Split(*pk, ","))
	if err != nil {
		fmt.Fprintln(os.Stderr, err)
		os.Exit(2)
	}
	if err := L.loadSpecs("/verif/contracts/assumed"); err != nil {
		fmt.Fprintln(os.Stderr, err)
		os.Exit(2)
	}
	re := regexp.MustCompile(*fre)
	var keys []string
	for k, fn := range L.funcs {
		if !strings.HasPrefix(k, modulePath) {
			continue
		}
		if !re.MatchString(L.funcKeyShort(fn)) {
			continue
		}
		sp := L.specs.Funcs[k]
		if sp == nil && !*nospec {
			continue
		}
		if sp != nil && sp.Trusted {
			continue
		}
		keys = append(keys, k)
	}
	sort.Strings(keys)
	// stale work directories of runs that were killed (e.g. output piped into head)
	if old, _ := filepath.Glob(filepath.Join(os.TempDir(), "govc[0-9]*")); len(old) > 0 {
		for _, d := range old {
			if fi, err := os.Stat(d); err == nil && time.Since(fi.ModTime()) > 30*time.Minute {
				os.RemoveAll(d)
			}
		}
	}
	work, _ := os.MkdirTemp("", "govc")
	if !*keep {
		defer os.RemoveAll(work)
	} else {
		fmt.Println("work dir:", work)
	}
	opt := &solveOpts{timeout: *timeout, fast: 3, workers: 8, workDir: work, keepFiles: *keep}
	bad := 0
	for _, k := range keys {
		fn := L.funcs[k]
		sp := L.specs.Funcs[k]
		r := L.verifyFuncHoudini(fn, sp, opt)
		dischargeAll(pending(r.Obls), opt)
		fmt.Printf("== %s: %d obligations, flags=%v\n", r.Short, len(r.Obls), r.Flags)
		for _, e := range r.Errs {
			fmt.Println("   ERROR:", e)
			bad++
		}
		vac, _ := vacuous(r.Obls)
		isVac := map[*Obligation]bool{}
		for _, o := range vac {
			isVac[o] = true
		}
		for _, o := range r.Obls {
			ok := (o.Verdict == "unsat" && !o.Cover) || (o.Cover && !isVac[o])
			mark := "ok  "
			if !ok {
				mark = "FAIL"
				bad++
			}
			fmt.Printf("   %s %-8s %-7s %5.2fs %s  [%s] %s\n", mark, o.Verdict, o.Solver, o.Time, o.ID, o.Pos, o.Desc)
			if !ok && !o.Cover && strings.HasPrefix(o.Verdict, "sat") {
				m := parseGetValue(o.Raw, o.Inputs)
				var ns []string
				for _, in := range o.Inputs {
					if v, ok := m[in.Name]; ok && !strings.Contains(in.Name, "[") {
						ns = append(ns, in.Name+"="+v)
					}
				}
				fmt.Println("        model:", strings.Join(ns, " "))
			}
			if *dump != "" && strings.Contains(o.ID, *dump) {
				fmt.Println(o.script(-1))
			}
		}
	}
	if bad > 0 {
		if !*keep {
			os.RemoveAll(work)
		}
		os.Exit(1)
	}
}
