package main

import (
	"fmt"
	"regexp"
	"sort"
	"strings"

	"golang.org/x/tools/go/ssa"
)

// GoSweepConfig: structural rules for "no client traffic can end the process" (C01), decided on go/ssa.
//   - every goroutine started in the listed packages either registers a recover as its first action
//     (recover-frame rule), or is a function whose no-panic contract is verified by this same check,
//     or is listed as reviewed (reported as an assumption), or is one of the listed third-party functions;
//   - every directly recursive function of the listed packages carries a `decreases` clause that this
//     check verifies.
type GoSweepConfig struct {
	Packages   []string          `json:"packages"`
	ThirdParty []string          `json:"third_party_ok"` // full function keys started with go that are trusted
	Reviewed   map[string]string `json:"reviewed"`       // short function key -> why it cannot panic
	Exclude    []string          `json:"exclude"`        // regexps on short keys of enclosing functions outside the property
}

// recoverFrameOK: the first thing fn does is to register a deferred closure whose first call is recover().
func recoverFrameOK(fn *ssa.Function) (bool, string) {
	if fn == nil || len(fn.Blocks) == 0 {
		return false, "no body"
	}
	earlier := 0
	for _, in := range fn.Blocks[0].Instrs {
		switch x := in.(type) {
		case *ssa.Alloc, *ssa.MakeClosure, *ssa.DebugRef:
		case *ssa.Store:
			if _, isAlloc := x.Addr.(*ssa.Alloc); !isAlloc {
				return false, "an instruction that may panic precedes the registration of the recover closure"
			}
		case *ssa.FieldAddr:
			if _, isParam := x.X.(*ssa.Parameter); !isParam {
				return false, "an instruction that may panic precedes the registration of the recover closure"
			}
		case *ssa.UnOp:
			switch x.X.(type) {
			case *ssa.FreeVar, *ssa.Alloc, *ssa.FieldAddr:
			default:
				return false, "an instruction that may panic precedes the registration of the recover closure"
			}
		case *ssa.Defer:
			var R *ssa.Function
			if mc, isClo := x.Call.Value.(*ssa.MakeClosure); isClo {
				R = mc.Fn.(*ssa.Function)
			} else if f, isFn := x.Call.Value.(*ssa.Function); isFn {
				R = f
			}
			if R != nil && callsRecoverFirst(R) {
				if earlier > 0 {
					return true, fmt.Sprintf("%d deferred call(s) registered before the recover run after it, outside its protection", earlier)
				}
				return true, ""
			}
			// a deferred call registered before the recover closure: it runs AFTER the recovery
			earlier++
		default:
			return false, "an instruction that may panic precedes the registration of the recover closure"
		}
	}
	return false, "no deferred recover closure is registered in the entry block"
}

func (L *Loader) goSweep(c *GoSweepConfig, verified map[string]bool) (obls []*Obligation, notes []string) {
	inPkg := func(p *ssa.Package) bool {
		if p == nil {
			return false
		}
		for _, d := range c.Packages {
			d = strings.TrimPrefix(d, "./")
			pp := modulePath + "/" + d
			if p.Pkg.Path() == pp || (strings.HasSuffix(d, "/...") && strings.HasPrefix(p.Pkg.Path(), strings.TrimSuffix(pp, "/..."))) {
				return true
			}
		}
		return false
	}
	third := map[string]bool{}
	for _, t := range c.ThirdParty {
		third[t] = true
	}
	type site struct {
		id, pos, fn, desc string
		ok                bool
	}
	var sites []site
	var fns []*ssa.Function
	for fn := range L.allFuncs {
		fns = append(fns, fn)
	}
	sort.Slice(fns, func(i, j int) bool { return L.funcKey(fns[i]) < L.funcKey(fns[j]) })
	nGo := map[string]int{}
	for _, fn := range fns {
		p := pkgOf(fn)
		if !inPkg(p) || strings.HasSuffix(L.fset.Position(fn.Pos()).Filename, "_test.go") {
			continue
		}
		short := L.funcKeyShort(fn)
		skip := false
		for _, ex := range c.Exclude {
			if m, _ := regexp.MatchString("^(?:"+ex+")$", short); m {
				skip = true
			}
		}
		if skip {
			continue
		}
		selfRec := false
		for _, b := range fn.Blocks {
			for _, in := range b.Instrs {
				if call, ok := in.(ssa.CallInstruction); ok {
					if call.Common().StaticCallee() == fn {
						if _, isGo := in.(*ssa.Go); !isGo {
							selfRec = true
						}
					}
				}
				g, ok := in.(*ssa.Go)
				if !ok {
					continue
				}
				pos := L.fset.Position(g.Pos())
				pstr := fmt.Sprintf("%s:%d", strings.TrimPrefix(pos.Filename, L.repoDir+"/"), pos.Line)
				var target *ssa.Function
				if mc, isClo := g.Call.Value.(*ssa.MakeClosure); isClo {
					target = mc.Fn.(*ssa.Function)
				} else {
					target = g.Call.StaticCallee()
				}
				nGo[short]++
				s := site{pos: pstr, fn: short}
				switch {
				case target == nil:
					s.id = fmt.Sprintf("%s/go/dynamic#%d", short, nGo[short])
					why, rev := c.Reviewed[s.id]
					s.ok = rev
					s.desc = "goroutine started through a function value: its body is not known here"
					if rev {
						notes = append(notes, s.id+" at "+pstr+" (reviewed: "+why+")")
					}
				default:
					tshort := L.funcKeyShort(target)
					s.id = fmt.Sprintf("%s/go/%s#%d", short, tshort, nGo[short])
					if ok, note := recoverFrameOK(target); ok {
						s.ok, s.desc = true, "goroutine "+tshort+" registers a recover before anything that can panic"
						if note != "" {
							s.desc += " (" + note + ")"
							notes = append(notes, tshort+": "+note)
						}
					} else if verified[L.funcKey(target)] {
						s.ok, s.desc = true, "goroutine "+tshort+" is under a no-panic contract verified by this check"
					} else if third[L.funcKey(target)] {
						s.ok, s.desc = true, "goroutine "+tshort+" is third-party code (trusted)"
						notes = append(notes, tshort+" at "+pstr+" (third party, trusted not to panic)")
					} else if why, rev := c.Reviewed[tshort]; rev {
						s.ok, s.desc = true, "goroutine "+tshort+" reviewed: "+why
						notes = append(notes, tshort+" at "+pstr+" (reviewed: "+why+")")
					} else {
						_, why := recoverFrameOK(target)
						s.desc = "goroutine " + tshort + " runs outside any recover and is not under a no-panic contract (" + why + "): a panic in it ends the process"
					}
				}
				sites = append(sites, s)
			}
		}
		if selfRec {
			sp := L.specFor(fn)
			s := site{id: short + "/recursion/decreases#1", pos: L.posOfFn(fn), fn: short}
			if sp != nil && sp.Decreases != nil && verified[L.funcKey(fn)] {
				s.ok, s.desc = true, "recursive function with a verified decreases clause"
			} else if why, rev := c.Reviewed[short]; rev {
				s.ok, s.desc = true, "recursive function reviewed: "+why
				notes = append(notes, short+" (recursion reviewed: "+why+")")
			} else {
				s.desc = "recursive function without a verified decreases clause: unbounded recursion (stack exhaustion is fatal) is not excluded"
			}
			sites = append(sites, s)
		}
	}
	sort.Slice(sites, func(i, j int) bool { return sites[i].id < sites[j].id })
	for _, s := range sites {
		goal := "false"
		if s.ok {
			goal = "true"
		}
		obls = append(obls, &Obligation{ID: s.id, Kind: "confine", Func: s.fn, Pos: s.pos, Desc: s.desc,
			Prefix: 1, Goal: goal, Script: []string{"(set-logic ALL)"}})
	}
	return
}

func (L *Loader) posOfFn(fn *ssa.Function) string {
	pos := L.fset.Position(fn.Pos())
	return fmt.Sprintf("%s:%d", strings.TrimPrefix(pos.Filename, L.repoDir+"/"), pos.Line)
}
