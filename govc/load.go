package main

import (
	"bytes"
	"fmt"
	"go/ast"
	"go/printer"
	"go/token"
	"go/types"
	"path"
	"path/filepath"
	"regexp"
	"sort"
	"strconv"
	"strings"

	"golang.org/x/tools/go/packages"
	"golang.org/x/tools/go/ssa"
	"golang.org/x/tools/go/ssa/ssautil"
)

const modulePath = "github.com/honeytrap/honeytrap"

type tokenT = token.Token

func init() {
	tokOf = map[string]token.Token{
		"+": token.ADD, "-": token.SUB, "*": token.MUL, "/": token.QUO, "%": token.REM,
		"&": token.AND, "|": token.OR, "^": token.XOR, "&^": token.AND_NOT, "<<": token.SHL, ">>": token.SHR,
		"==": token.EQL, "!=": token.NEQ, "<": token.LSS, "<=": token.LEQ, ">": token.GTR, ">=": token.GEQ,
	}
}

type UFDecl struct {
	Name   string
	Params []string
	Ret    string
	// attributes stated per application instead of as quantified axioms
	HasRange bool
	Lo, Hi   int64 // "range lo hi": lo <= f(..) <= hi (integer result)
	Len      int64 // "len n": len(f(..)) == n (string result); -1 when absent
}

type Loader struct {
	implCache   map[string]types.Type
	fset        *token.FileSet
	pkgs        []*packages.Package
	prog        *ssa.Program
	byPath      map[string]*packages.Package
	funcs       map[string]*ssa.Function // key -> function
	specs       *Specs
	typeTags    map[string]int
	strNames    map[string]string
	nstr        int
	inlineLimit int
	anchors     map[*ssa.Function]map[token.Pos]string
	globs       []globSpec
	repoDir     string
	curTop      *ssa.Function
	immGlobals  map[string]bool
	allFuncs    map[*ssa.Function]bool
	assignRHS   map[*ssa.Function]map[ast.Expr]string
}

type globSpec struct {
	re *regexp.Regexp
	sp *FuncSpec
}

func load(repoDir string, patterns []string) (*Loader, error) {
	cfg := &packages.Config{Mode: packages.LoadAllSyntax, Dir: repoDir, BuildFlags: []string{"-tags=verif"}, Tests: false}
	pkgs, err := packages.Load(cfg, patterns...)
	if err != nil {
		return nil, err
	}
	var errs []string
	packages.Visit(pkgs, nil, func(p *packages.Package) {
		for _, e := range p.Errors {
			errs = append(errs, e.Error())
		}
	})
	if len(errs) > 0 {
		return nil, fmt.Errorf("package errors: %s", strings.Join(errs, "; "))
	}
	prog, _ := ssautil.AllPackages(pkgs, ssa.InstantiateGenerics|ssa.GlobalDebug)
	prog.Build()
	L := &Loader{fset: prog.Fset, pkgs: pkgs, prog: prog, byPath: map[string]*packages.Package{}, funcs: map[string]*ssa.Function{},
		specs: newSpecs(), typeTags: map[string]int{}, strNames: map[string]string{}, inlineLimit: 120,
		anchors: map[*ssa.Function]map[token.Pos]string{}, repoDir: repoDir}
	packages.Visit(pkgs, nil, func(p *packages.Package) { L.byPath[p.PkgPath] = p })
	L.immGlobals = map[string]bool{}
	L.assignRHS = map[*ssa.Function]map[ast.Expr]string{}
	L.allFuncs = ssautil.AllFunctions(prog)
	// AllFunctions reaches a method of an unexported type only when a value of the type is converted to an interface
	// somewhere in the loaded packages: add the declared methods of every named type of the module explicitly
	for _, p := range prog.AllPackages() {
		if p.Pkg == nil || !strings.HasPrefix(p.Pkg.Path(), modulePath) {
			continue
		}
		for _, mem := range p.Members {
			tn, ok := mem.(*ssa.Type)
			if !ok {
				continue
			}
			nt, ok := tn.Type().(*types.Named)
			if !ok {
				continue
			}
			for i := 0; i < nt.NumMethods(); i++ {
				if fn := prog.FuncValue(nt.Method(i)); fn != nil && fn.Blocks != nil && !L.allFuncs[fn] {
					L.allFuncs[fn] = true
					for _, an := range fn.AnonFuncs {
						L.allFuncs[an] = true
					}
				}
			}
		}
	}
	for fn := range L.allFuncs {
		if fn.Pkg == nil && fn.Parent() == nil {
			continue
		}
		L.funcs[L.funcKey(fn)] = fn
	}
	return L, nil
}

func (L *Loader) loadSpecs(assumedDir string) error {
	dirs := map[string]string{}
	for p, pk := range L.byPath {
		if strings.HasPrefix(p, modulePath) && len(pk.GoFiles) > 0 {
			dirs[p] = filepath.Dir(pk.GoFiles[0])
		}
	}
	if err := L.specs.loadRepoSpecs(dirs); err != nil {
		return err
	}
	if err := L.specs.loadAssumed(assumedDir); err != nil {
		return err
	}
	for k, sp := range L.specs.Funcs {
		if sp.Assumed && strings.HasSuffix(k, ".*") {
			L.addGlob(k, sp)
		}
	}
	sort.Slice(L.globs, func(i, j int) bool { return len(L.globs[i].re.String()) > len(L.globs[j].re.String()) })
	return nil
}

func (L *Loader) addGlob(k string, sp *FuncSpec) {
	q := regexp.QuoteMeta(k[:len(k)-1]) + ".*"
	L.globs = append(L.globs, globSpec{regexp.MustCompile("^" + q + "$"), sp})
}

func pkgOf(fn *ssa.Function) *ssa.Package {
	for f := fn; f != nil; f = f.Parent() {
		if f.Pkg != nil {
			return f.Pkg
		}
	}
	return nil
}

// funcKey: "<pkgpath>.<name relative to its package>", e.g.
// github.com/honeytrap/honeytrap/services/decoder.(*Decode).Byte$1
func (L *Loader) funcKey(fn *ssa.Function) string {
	p := pkgOf(fn)
	if p == nil {
		// synthetic wrappers (bound methods, thunks) have no package
		return fn.String()
	}
	return p.Pkg.Path() + "." + fn.RelString(p.Pkg)
}

func (L *Loader) funcKeyShort(fn *ssa.Function) string {
	p := pkgOf(fn)
	if p == nil {
		return fn.String()
	}
	return p.Pkg.Name() + "." + fn.RelString(p.Pkg)
}

func (L *Loader) shortName(fn *ssa.Function) string {
	p := pkgOf(fn)
	if p == nil {
		return fn.Name()
	}
	if p != pkgOf(L.curTop) {
		return p.Pkg.Name() + "." + fn.RelString(p.Pkg)
	}
	return fn.RelString(p.Pkg)
}

func (L *Loader) specFor(fn *ssa.Function) *FuncSpec {
	k := L.funcKey(fn)
	if sp, ok := L.specs.Funcs[k]; ok {
		return sp
	}
	for _, g := range L.globs {
		if g.re.MatchString(k) {
			return g.sp
		}
	}
	return nil
}

func (L *Loader) ifaceKey(cc *ssa.CallCommon) string {
	T := cc.Value.Type()
	return typeKey(T) + "." + cc.Method.Name()
}

func (L *Loader) ifaceSpec(cc *ssa.CallCommon) *FuncSpec {
	k := L.ifaceKey(cc)
	if sp, ok := L.specs.Funcs[k]; ok {
		return sp
	}
	// a method promoted from an embedded interface: try the interface that declares it
	if recv := cc.Method.Type().(*types.Signature).Recv(); recv != nil {
		k2 := typeKey(recv.Type()) + "." + cc.Method.Name()
		if sp, ok := L.specs.Funcs[k2]; ok {
			return sp
		}
	}
	for _, g := range L.globs {
		if g.re.MatchString(k) {
			return g.sp
		}
	}
	return nil
}

func (L *Loader) funcTypeSpec(T types.Type) *FuncSpec {
	if sp, ok := L.specs.Funcs["functype:"+typeKey(T)]; ok {
		return sp
	}
	if sp, ok := L.specs.Funcs["functype:"+typeKey(T.Underlying())]; ok {
		return sp
	}
	return nil
}

func (L *Loader) inlinablePkg(fn *ssa.Function) bool {
	p := pkgOf(fn)
	if p == nil {
		return true // synthetic wrappers
	}
	pp := p.Pkg.Path()
	if strings.HasPrefix(pp, modulePath) {
		return true
	}
	switch pp {
	case "encoding/binary":
		return true
	}
	return false
}

func (L *Loader) modelled(fn *ssa.Function) bool {
	_, ok := models[L.funcKey(fn)]
	return ok
}

func (L *Loader) isNullableAddr(a *Addr) bool {
	if a.Kind != aField {
		return false
	}
	// Key is "F:<typekey>.<field>"
	return L.specs.Nullable[strings.TrimPrefix(a.Key, "F:")]
}

// immutableGlobalKey: heap key "G:<pkgpath>.<name>#k" of a package-level variable that no
// function other than the package initialiser stores to and whose address never escapes.
func (L *Loader) immutableGlobalKey(key string) bool {
	name := strings.TrimPrefix(key, "G:")
	if i := strings.LastIndex(name, "#"); i >= 0 {
		name = name[:i]
	}
	if v, ok := L.immGlobals[name]; ok {
		return v
	}
	i := strings.LastIndex(name, ".")
	pkgPath, gname := name[:i], name[i+1:]
	res := false
	if pk, ok := L.byPath[pkgPath]; ok {
		if sp := L.prog.Package(pk.Types); sp != nil {
			if g, ok := sp.Members[gname].(*ssa.Global); ok {
				res = L.globalIsImmutable(g)
			}
		}
	}
	L.immGlobals[name] = res
	return res
}

func (L *Loader) globalIsImmutable(g *ssa.Global) bool {
	refs := 0
	for fn := range L.allFuncs {
		if pkgOf(fn) == nil {
			continue
		}
		for _, b := range fn.Blocks {
			for _, in := range b.Instrs {
				ops := in.Operands(nil)
				for _, op := range ops {
					if *op != ssa.Value(g) {
						continue
					}
					refs++
					switch x := in.(type) {
					case *ssa.UnOp:
						// load: fine
						_ = x
					case *ssa.Store:
						if x.Addr == ssa.Value(g) && fn.Name() == "init" && pkgOf(fn) == g.Pkg {
							continue
						}
						return false
					default:
						return false // address escapes
					}
				}
			}
		}
	}
	return true
}

func (L *Loader) pkgByPath(p string) *types.Package {
	if pk, ok := L.byPath[p]; ok {
		return pk.Types
	}
	return nil
}

func (L *Loader) importedPkg(from *types.Package, name string) *types.Package {
	if from == nil {
		return nil
	}
	for _, imp := range from.Imports() {
		if imp.Name() == name {
			return imp
		}
	}
	// fall back to any loaded package with that name (assumed-contract files)
	var cands []string
	for p, pk := range L.byPath {
		if pk.Types != nil && pk.Types.Name() == name {
			cands = append(cands, p)
		}
	}
	sort.Strings(cands)
	if len(cands) > 0 {
		return L.byPath[cands[0]].Types
	}
	return nil
}

func (L *Loader) lookupSpecFn(pkg *types.Package, name string) *SpecFn {
	if pkg != nil {
		if sf, ok := L.specs.SpecFns[pkg.Path()+"."+name]; ok {
			return sf
		}
	}
	if sf, ok := L.specs.SpecFns["."+name]; ok {
		return sf
	}
	return nil
}

// resolveType parses a (restricted) Go type expression in the scope of pkg.
func (L *Loader) resolveType(pkg *types.Package, s string) (types.Type, error) {
	s = strings.TrimSpace(s)
	if strings.Contains(s, " / ") {
		// a full import path went through the expression parser: "(((*a / b) / c) / p.T)" is "*a/b/c/p.T"
		s = strings.NewReplacer("(", "", ")", "", " ", "").Replace(s)
	}
	switch {
	case strings.HasPrefix(s, "*"):
		t, err := L.resolveType(pkg, s[1:])
		if err != nil {
			return nil, err
		}
		return types.NewPointer(t), nil
	case strings.HasPrefix(s, "[]"):
		t, err := L.resolveType(pkg, s[2:])
		if err != nil {
			return nil, err
		}
		return types.NewSlice(t), nil
	case strings.HasPrefix(s, "["):
		i := strings.Index(s, "]")
		n, err := strconv.Atoi(s[1:i])
		if err != nil {
			return nil, err
		}
		t, err := L.resolveType(pkg, s[i+1:])
		if err != nil {
			return nil, err
		}
		return types.NewArray(t, int64(n)), nil
	}
	if obj := types.Universe.Lookup(s); obj != nil {
		if tn, ok := obj.(*types.TypeName); ok {
			return tn.Type(), nil
		}
	}
	if i := strings.LastIndex(s, "."); i >= 0 {
		p := L.importedPkg(pkg, s[:i])
		if p == nil {
			if pk, ok := L.byPath[s[:i]]; ok {
				p = pk.Types
			}
		}
		if p == nil {
			return nil, fmt.Errorf("unknown package in type %q", s)
		}
		if tn, ok := p.Scope().Lookup(s[i+1:]).(*types.TypeName); ok {
			return tn.Type(), nil
		}
		return nil, fmt.Errorf("unknown type %q", s)
	}
	if pkg != nil {
		if tn, ok := pkg.Scope().Lookup(s).(*types.TypeName); ok {
			return tn.Type(), nil
		}
	}
	return nil, fmt.Errorf("unknown type %q", s)
}

// isLocalName: name is declared as a local variable somewhere in fn's source.
func (L *Loader) isLocalName(fn *ssa.Function, name string) bool {
	if name == "rangeindex" {
		return true // the hidden index of a range loop: defined where its loop head dominates
	}
	syn := fn.Syntax()
	if syn == nil {
		return false
	}
	found := false
	ast.Inspect(syn, func(n ast.Node) bool {
		switch x := n.(type) {
		case *ast.AssignStmt:
			if x.Tok == token.DEFINE {
				for _, l := range x.Lhs {
					if id, ok := l.(*ast.Ident); ok && id.Name == name {
						found = true
					}
				}
			}
		case *ast.ValueSpec:
			for _, id := range x.Names {
				if id.Name == name {
					found = true
				}
			}
		case *ast.RangeStmt:
			for _, l := range []ast.Expr{x.Key, x.Value} {
				if id, ok := l.(*ast.Ident); ok && id.Name == name {
					found = true
				}
			}
		}
		return !found
	})
	return found
}

// assignedName: expr is the right-hand side of an assignment to a single plain identifier.
func (L *Loader) assignedName(fn *ssa.Function, expr ast.Expr) (string, bool) {
	m, ok := L.assignRHS[fn]
	if !ok {
		m = map[ast.Expr]string{}
		L.assignRHS[fn] = m
		if syn := fn.Syntax(); syn != nil {
			ast.Inspect(syn, func(n ast.Node) bool {
				switch x := n.(type) {
				case *ast.FuncLit:
					return n == syn
				case *ast.AssignStmt:
					if len(x.Lhs) == len(x.Rhs) {
						for i := range x.Lhs {
							if id, ok := x.Lhs[i].(*ast.Ident); ok && id.Name != "_" {
								m[x.Rhs[i]] = id.Name
							}
						}
					}
				case *ast.ValueSpec:
					if len(x.Names) == len(x.Values) {
						for i := range x.Names {
							m[x.Values[i]] = x.Names[i].Name
						}
					}
				}
				return true
			})
		}
	}
	n, ok := m[expr]
	return n, ok
}

// srcAnchor: normalised source text of the expression an instruction comes from.
func (L *Loader) srcAnchor(fn *ssa.Function, in ssa.Instruction) string {
	m, ok := L.anchors[fn]
	if !ok {
		m = map[token.Pos]string{}
		L.anchors[fn] = m
		if syn := fn.Syntax(); syn != nil {
			ast.Inspect(syn, func(n ast.Node) bool {
				var p token.Pos
				switch x := n.(type) {
				case *ast.IndexExpr:
					p = x.Lbrack
				case *ast.SliceExpr:
					p = x.Lbrack
				case *ast.CallExpr:
					p = x.Lparen
				case *ast.SelectorExpr:
					p = x.Sel.Pos()
				case *ast.StarExpr:
					p = x.Star
				case *ast.TypeAssertExpr:
					p = x.Lparen
				case *ast.BinaryExpr:
					p = x.OpPos
				case *ast.UnaryExpr:
					p = x.OpPos
				case *ast.FuncLit:
					if n != syn {
						return false
					}
				}
				if p.IsValid() {
					if _, dup := m[p]; !dup {
						m[p] = L.render(n)
					}
				}
				return true
			})
		}
	}
	if in != nil {
		if s, ok := m[in.Pos()]; ok {
			return s
		}
	}
	if v, ok := in.(ssa.Value); ok {
		return fmt.Sprintf("%T", in)[5:] + ":" + shortTypeKey(v.Type())
	}
	if in == nil {
		return "?"
	}
	return fmt.Sprintf("%T", in)[5:]
}

var reWS = regexp.MustCompile(`\s+`)

func (L *Loader) render(n ast.Node) string {
	var buf bytes.Buffer
	printer.Fprint(&buf, L.fset, n)
	s := reWS.ReplaceAllString(buf.String(), " ")
	if len(s) > 70 {
		s = s[:70] + "…"
	}
	return s
}

var _ = path.Base

// soleImplementation: the concrete type declared (implements directive) as the only implementation of
// the interface type T, or nil.
func (L *Loader) soleImplementation(T types.Type) types.Type {
	if len(L.specs.Implements) == 0 {
		return nil
	}
	if L.implCache == nil {
		L.implCache = map[string]types.Type{}
	}
	key := T.String()
	if c, ok := L.implCache[key]; ok {
		return c
	}
	var res types.Type
	for it, ct := range L.specs.Implements {
		IT, err := L.resolveType(nil, it)
		if err != nil || !types.Identical(IT, T) {
			continue
		}
		CT, err := L.resolveType(nil, ct)
		if err == nil {
			res = CT
		}
	}
	L.implCache[key] = res
	return res
}
