package canary

import (
	"fmt"
	"net"
	"testing"

	"github.com/glycerine/rbuf"
)

func TestHandSendNoARP(t *testing.T) {
	defer func() {
		if r := recover(); r != nil {
			fmt.Println("HAND-PANIC:", r)
		}
	}()
	c := &Canary{networkInterfaces: []net.Interface{{Index: 1, Name: "lo"}}, buffer: rbuf.NewFixedSizeRingBuf(65535), descriptors: map[string]int32{}}
	st := c.NewState(net.IPv4(10, 0, 0, 1), 1234, net.IPv4(10, 0, 0, 2), 80)
	err := c.send(st, []byte{}, 0x12)
	fmt.Println("HAND-RETURNED", err)
}

func TestHandTableFull(t *testing.T) {
	defer func() {
		if r := recover(); r != nil {
			fmt.Println("HAND-PANIC:", r)
		}
	}()
	c := &Canary{}
	for i := 0; i < 65536; i++ {
		s := c.NewState(net.IPv4(10, 0, byte(i>>8), byte(i)), 1234, net.IPv4(10, 0, 0, 2), 80)
		s.State = SocketSynReceived
		c.stateTable.Add(s)
	}
	fmt.Println("HAND-RETURNED")
}
