package redis

// Hand replay for redis.parseRedisData/recursion/decreases (property C01): every "*n" line makes the
// parser call itself for the first element before anything else, so a client that streams "*1" lines
// drives the recursion as deep as it likes: the goroutine stack grows until the runtime's limit and the
// process dies with "fatal error: stack overflow" (not recoverable). The child lowers the stack limit
// to 16 MiB so that 400000 lines (2 MB of input) suffice; with the default limit of 1 GB the same
// happens with proportionally more input.

import (
	"bufio"
	"bytes"
	"os"
	"os/exec"
	"runtime/debug"
	"strings"
	"testing"
)

func TestHandRedisNestedArrays(t *testing.T) {
	cmd := exec.Command(os.Args[0], "-test.run", "TestHandRedisNestedArraysChild")
	cmd.Env = append(os.Environ(), "C01_CHILD=1")
	var out bytes.Buffer
	cmd.Stdout, cmd.Stderr = &out, &out
	if err := cmd.Run(); err != nil {
		s := out.String()
		if i := strings.Index(s, "fatal error"); i >= 0 {
			s = s[i:]
		}
		if len(s) > 160 {
			s = s[:160]
		}
		t.Fatalf("the process parsing the redis stream died: %v\n%s", err, s)
	}
}

func TestHandRedisNestedArraysChild(t *testing.T) {
	if os.Getenv("C01_CHILD") == "" {
		return
	}
	debug.SetMaxStack(16 << 20)
	in := strings.Repeat("*1\r\n", 400000)
	_, err := parseRedisData(bufio.NewScanner(strings.NewReader(in)))
	if err == nil {
		t.Fatalf("400000 nested arrays without an element parsed without error")
	}
}
