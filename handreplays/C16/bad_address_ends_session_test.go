package agent

// Hand replay for agent.(*agentListener).serv/pre/(*Connections).Get/inv (property C16): a data
// message whose addresses carry an unsupported protocol byte decodes to nil addresses; the session
// loop called String() on them, the nil-interface call panicked, serv's recover ended the session and
// with it every other connection of that agent. After the fix the message is dropped and the
// established connection keeps working.

import (
	"net"
	"testing"
	"time"
)

func TestHandBadAddressEndsSession(t *testing.T) {
	a, b := net.Pipe()
	defer b.Close()
	al := &agentListener{ch: make(chan net.Conn, 4)}
	go al.serv(Conn2(a))
	peer := Conn2(b)
	go peer.send(Handshake{ProtocolVersion: 1, Version: "v", ShortCommitID: "s", CommitID: "c", Token: "t"})
	if _, err := peer.receive(); err != nil { // handshake response
		t.Fatal(err)
	}
	la := &net.TCPAddr{IP: net.IPv4(10, 0, 0, 1).To4(), Port: 22}
	ra := &net.TCPAddr{IP: net.IPv4(192, 0, 2, 7).To4(), Port: 40000}
	if err := peer.send(Hello{Laddr: la, Raddr: ra}); err != nil {
		t.Fatal(err)
	}
	conn := <-al.ch
	// a data message with protocol byte 99 in both addresses
	bad := []byte{99, 0, 0, 0, 0, 99, 0, 0, 0, 0, 0, 0}
	b.Write([]byte{uint8(TypeReadWriteTCP), byte(len(bad)), 0})
	b.Write(bad)
	// the established connection must still receive its data
	if err := peer.send(ReadWriteTCP{Laddr: la, Raddr: ra, Payload: []byte("hello")}); err != nil {
		t.Fatalf("the session is gone: %v", err)
	}
	conn.SetReadDeadline(time.Now().Add(2 * time.Second))
	buf := make([]byte, 16)
	n, err := conn.Read(buf)
	if err != nil || string(buf[:n]) != "hello" {
		t.Fatalf("connection of the same session after the bad message: read %q, %v", buf[:n], err)
	}
}
