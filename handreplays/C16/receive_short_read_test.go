package agent

// Hand replay for agent.(*conn2).receive/callpre/UnmarshalBinary/whole-frame (property C16): receive
// read the frame body with a single Read, which on a byte stream returns what has arrived so far. A
// peer that delivers a frame's body in two pieces (any TCP-like transport may; the encrypted transport
// does for frames above its record size of 65517 bytes) had the first piece decoded as the whole
// message and the second piece misread as the next frame.

import (
	"bytes"
	"encoding/binary"
	"net"
	"testing"
)

func TestHandReceiveShortRead(t *testing.T) {
	a, b := net.Pipe()
	defer a.Close()
	defer b.Close()
	payload := bytes.Repeat([]byte{0x5A}, 3000)
	data, _ := ReadWriteTCP{
		Laddr:   &net.TCPAddr{IP: net.IPv4(10, 0, 0, 1).To4(), Port: 22},
		Raddr:   &net.TCPAddr{IP: net.IPv4(192, 0, 2, 7).To4(), Port: 40000},
		Payload: payload,
	}.MarshalBinary()
	go func() {
		b.Write([]byte{uint8(TypeReadWriteTCP)})
		l := make([]byte, 2)
		binary.LittleEndian.PutUint16(l, uint16(len(data)))
		b.Write(l)
		b.Write(data[:1000]) // the body arrives in two pieces
		b.Write(data[1000:])
		b.Write([]byte{uint8(TypePing), 0, 0})
	}()
	c := Conn2(a)
	o, err := c.receive()
	if err != nil {
		t.Fatal(err)
	}
	rw, ok := o.(*ReadWriteTCP)
	if !ok {
		t.Fatalf("got %T", o)
	}
	if !bytes.Equal(rw.Payload, payload) {
		n := 0
		for i := range rw.Payload {
			if rw.Payload[i] != 0x5A {
				n++
			}
		}
		t.Errorf("payload of %d bytes: %d bytes differ from what was sent", len(rw.Payload), n)
	}
	o2, err := c.receive()
	if _, isPing := o2.(*Ping); err != nil || !isPing {
		t.Errorf("the next frame was read as %T, %v (want *Ping)", o2, err)
	}
}
