package server

// Hand replay for server.WithToken$1/post/well-formed (property C18): every on-disk state of the
// token file that a kill during the first start can leave (empty, every proper prefix of the token).
// Before the fix (28b5664) the truncated content was adopted as the sensor token for good (for the
// empty file: an empty token); after it the file is rewritten with a complete token and later starts
// keep that one.

import (
	"io/ioutil"
	"os"
	"path/filepath"
	"testing"
)

func TestHandTokenTruncated(t *testing.T) {
	first := ""
	{
		dir, _ := ioutil.TempDir("", "c18")
		defer os.RemoveAll(dir)
		h := &Honeytrap{dataDir: dir}
		if err := WithToken()(h); err != nil {
			t.Fatal(err)
		}
		first = h.token
	}
	for n := 0; n < len(first); n++ {
		dir, _ := ioutil.TempDir("", "c18")
		defer os.RemoveAll(dir)
		p := filepath.Join(dir, "token")
		if err := ioutil.WriteFile(p, []byte(first[:n]), 0600); err != nil {
			t.Fatal(err)
		}
		h := &Honeytrap{dataDir: dir}
		if err := WithToken()(h); err != nil {
			t.Fatal(err)
		}
		if len(h.token) != len(first) {
			t.Errorf("token file holding %d of %d bytes: adopted token %q", n, len(first), h.token)
			continue
		}
		h2 := &Honeytrap{dataDir: dir}
		if err := WithToken()(h2); err != nil {
			t.Fatal(err)
		}
		if h2.token != h.token {
			t.Errorf("token changed on the following start: %q then %q", h.token, h2.token)
		}
	}
}
