package fschannel

// Hand replay for rotateFile.Write/inv-preserve/loop1/line-start (property C07): maxSize 1024, a
// 1000-byte line then a 100-byte line: before the fix the second file starts with the line's second
// byte (its first byte '{' is lost); and two rotations within one second overwrote the first
// rotated file (rotate/callpre/os.Rename).

import (
	"bytes"
	"fmt"
	"io/ioutil"
	"os"
	"path/filepath"
	"testing"
)

func TestHandRotateFirstByte(t *testing.T) {
	dir, _ := ioutil.TempDir("", "c07")
	defer os.RemoveAll(dir)
	path := filepath.Join(dir, "log")
	rf, err := OpenRotateFile(path, 0600, 1024)
	if err != nil {
		t.Fatal(err)
	}
	l1 := append(append([]byte("{"), bytes.Repeat([]byte("a"), 997)...), '}', '\n')
	l2 := append(append([]byte("{"), bytes.Repeat([]byte("b"), 97)...), '}', '\n')
	l3 := append(append([]byte("{"), bytes.Repeat([]byte("c"), 997)...), '}', '\n')
	rf.Write(l1)
	rf.Write(l2)
	rf.Write(l3)
	rf.Write(l2)
	rf.Close()
	files, _ := filepath.Glob(path + "*")
	total := 0
	bad := 0
	for _, f := range files {
		b, _ := ioutil.ReadFile(f)
		for _, line := range bytes.Split(bytes.TrimRight(b, "\n"), []byte("\n")) {
			if len(line) == 0 {
				continue
			}
			total++
			if line[0] != '{' || line[len(line)-1] != '}' {
				bad++
			}
		}
	}
	if bad == 0 && total == 4 {
		fmt.Println("HAND-INTACT files:", len(files), "lines:", total)
	} else {
		fmt.Println("HAND-CORRUPT files:", len(files), "lines:", total, "damaged:", bad)
	}
}
