#!/bin/bash
# usage: seedconfirm.sh <PROP> <seed dir with patch.diff demo_test.go meta.json> <package dir of the demo> "<packages whose existing tests must still pass>"
# 1. confirms the seeded change in a scratch copy of /repo HEAD (outside /repo and /verif, removed afterwards):
#    the demo passes on the original; with the patch the tree builds, the existing tests pass and the demo fails
# 2. stores it as /verif/seeded/<PROP>-<name>/
# 3. runs the property's check on a scratch copy with the patch applied (must report VIOLATION)
set -u
export GOFLAGS=-mod=mod GOPROXY=off GOSUMDB=off GOTOOLCHAIN=local
P=$1; SRC=${2%/}; DEMODIR=$3; TESTPKGS=$4
NAME=$(basename $SRC | sed 's/^[0-9]*-//')
DEST=/verif/seeded/$P-$NAME
S=$(mktemp -d /tmp/seedchk.XXXX)
trap 'rm -rf "$S"' EXIT
cp -r /repo/. $S/ && (cd $S && git checkout -q -- . && git clean -fdq)
cp $SRC/demo_test.go $S/$DEMODIR/zz_seed_demo_test.go
RUNPAT=$(grep -o 'func Test[A-Za-z0-9_]*' $SRC/demo_test.go | sed 's/func //' | paste -sd'|')
echo "== demo on original (must pass)"
(cd $S/$DEMODIR && TMPDIR=$(mktemp -d) go test -vet=off -count=1 -timeout 120s -run "^($RUNPAT)\$" . 2>&1 | tail -2 | cut -c1-200)
echo "== apply patch, build, existing tests (must pass), demo (must fail)"
(cd $S && git apply $SRC/patch.diff && go build ./... 2>&1 | tail -3)
rm $S/$DEMODIR/zz_seed_demo_test.go
(cd $S && go test -vet=off -count=1 -timeout 300s $TESTPKGS 2>&1 | tail -4 | cut -c1-160)
cp $SRC/demo_test.go $S/$DEMODIR/zz_seed_demo_test.go
(cd $S/$DEMODIR && TMPDIR=$(mktemp -d) go test -vet=off -count=1 -timeout 120s -run "^($RUNPAT)\$" . 2>&1 | grep -v "^\s*$" | tail -5 | cut -c1-220)
rm $S/$DEMODIR/zz_seed_demo_test.go
mkdir -p $DEST && cp $SRC/patch.diff $SRC/demo_test.go $SRC/meta.json $DEST/
echo "== check $P on the patched scratch copy (must report VIOLATION)"
(cd /verif && ./bin/govc check -no-evidence -repo $S -tier quick $P 2>&1 | cut -c1-220 | tail -5)
