package ftp

// Hand replay for ftp.(*ftpService).Handle/callpre/(*Server).newConn/own-driver (property C03): all FTP
// sessions shared one filesystem driver and with it ONE working directory: a directory change made by
// one client moved every other (and every later) client.

import (
	"bufio"
	"fmt"
	"net"
	"strings"
	"testing"

	"github.com/honeytrap/honeytrap/pushers"
)

func ftpDialog(t *testing.T, s *ftpService, lines []string) []string {
	clt, srv := net.Pipe()
	done := make(chan struct{})
	go func() { s.Handle(nil, srv); close(done) }()
	r := bufio.NewReader(clt)
	r.ReadString('\n') // welcome
	var replies []string
	for _, l := range lines {
		fmt.Fprintf(clt, "%s\r\n", l)
		rep, _ := r.ReadString('\n')
		replies = append(replies, strings.TrimSpace(rep))
	}
	clt.Close()
	<-done
	return replies
}

func TestHandFTPSharedWorkingDirectory(t *testing.T) {
	s := FTP().(*ftpService)
	c, _ := pushers.Dummy()
	s.SetChannel(c)
	a := ftpDialog(t, s, []string{"USER anonymous", "PASS anonymous", "MKD c03dir", "CWD c03dir", "PWD"})
	b := ftpDialog(t, s, []string{"USER anonymous", "PASS anonymous", "PWD"})
	ftpDialog(t, s, []string{"USER anonymous", "PASS anonymous", "CWD /", "RMD c03dir"})
	if !strings.Contains(a[len(a)-1], "/c03dir") {
		t.Fatalf("first session: %v", a)
	}
	if strings.Contains(b[len(b)-1], "c03dir") {
		t.Errorf("a new session starts in the directory the previous client changed to: %q", b[len(b)-1])
	}
}
