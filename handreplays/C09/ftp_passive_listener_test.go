package ftp

// Hand replay for ftp.(*ftpPassiveSocket).Close/post/listener-closed (property C09): every PASV/EPSV
// opens a listening socket; only the accepted data connection was ever closed. A passive socket the
// client never connects to kept its listener (a descriptor and a goroutine blocked in Accept) for the
// life of the process, also after the session ended.

import (
	"fmt"
	"net"
	"runtime"
	"testing"
	"time"
)

func TestHandFTPPassiveListenerReleased(t *testing.T) {
	before := runtime.NumGoroutine()
	var ports []int
	for i := 0; i < 5; i++ {
		ds, err := newPassiveSocket("127.0.0.1", 0, "sess", nil)
		if err != nil {
			t.Fatal(err)
		}
		ports = append(ports, ds.Port())
		ds.Close() // what Conn.Close does with its data connection at the end of the session
	}
	time.Sleep(200 * time.Millisecond)
	for _, p := range ports {
		l, err := net.Listen("tcp", fmt.Sprintf(":%d", p))
		if err != nil {
			t.Errorf("port %d of a closed passive socket is still listening: %v", p, err)
			continue
		}
		l.Close()
	}
	if after := runtime.NumGoroutine(); after > before {
		t.Errorf("%d goroutines before, %d after five passive sockets were opened and closed", before, after)
	}
}
