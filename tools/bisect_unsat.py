#!/usr/bin/env python3
# usage: bisect_unsat.py script.smt2 — finds the first assertion that makes the prefix of the script unsatisfiable
import sys, subprocess, tempfile, os
lines=[l.rstrip('\n') for l in open(sys.argv[1])]
body=[l for l in lines if not l.startswith('(check-sat') and not l.startswith('(get-') and not l.startswith('(exit')]
idx=[i for i,l in enumerate(body) if l.startswith('(assert')]
def unsat(k):
    # keep all non-assert lines and the first k asserts
    keep=set(idx[:k])
    txt='\n'.join(l for i,l in enumerate(body) if not l.startswith('(assert') or i in keep)+'\n(check-sat)\n'
    f=tempfile.NamedTemporaryFile('w',suffix='.smt2',delete=False); f.write(txt); f.close()
    try:
        out=subprocess.run(['z3-new','-T:20',f.name],capture_output=True,text=True).stdout.split('\n')[0]
    finally:
        os.unlink(f.name)
    return out.strip()=='unsat'
lo,hi=0,len(idx)
if not unsat(hi): print('whole script is not unsat'); sys.exit()
while lo<hi:
    mid=(lo+hi)//2
    if unsat(mid): hi=mid
    else: lo=mid+1
print('first unsat prefix: %d asserts; culprit:'%lo); print(body[idx[lo-1]][:1500])
