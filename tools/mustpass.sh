#!/bin/bash
# must-pass corpus: behaviour-preserving changes (mustpass/*.diff, written by a sub-agent that saw only the
# repository) on which the listed properties' checks must stay silent; a VIOLATION here is a false alarm.
cd /verif; fail=0
while IFS=$'\t' read -r name props; do
  case "$name" in ""|\#*) continue;; esac
  out=$(tools/refactorcheck.sh /verif/mustpass/$name.diff $props 2>&1)
  echo "$out"
  echo "$out" | grep -qv ": 0 violation(s)" && fail=1
done < mustpass/props.tsv
echo "mustpass: fail=$fail"; exit $fail
