package services

// Hand replay for services.(*httpService).Handle/callpre/bufio.NewReader (property C04): the handler made
// a new buffered reader for every request. A client that pipelines two requests in one write has both
// buffered by the first reader; the second request is thrown away with that reader: one event and one
// reply instead of two.

import (
	"bufio"
	"context"
	"net"
	"net/http"
	"testing"
	"time"

	"github.com/honeytrap/honeytrap/event"
)

type handEvents struct{ ch chan event.Event }

func (c *handEvents) Send(e event.Event) { c.ch <- e }

func TestHandHTTPPipelinedRequests(t *testing.T) {
	evs := &handEvents{ch: make(chan event.Event, 16)}
	s := HTTP(WithChannel(evs))

	clt, srv := net.Pipe()
	defer clt.Close()
	go func() {
		defer srv.Close()
		s.Handle(context.Background(), srv)
	}()

	clt.SetDeadline(time.Now().Add(3 * time.Second))
	go clt.Write([]byte("GET /first HTTP/1.1\r\nHost: a\r\n\r\nGET /second HTTP/1.1\r\nHost: a\r\n\r\n"))

	r := bufio.NewReader(clt)
	for i, want := range []string{"/first", "/second"} {
		resp, err := http.ReadResponse(r, nil)
		if err != nil {
			t.Fatalf("reply %d of 2 pipelined requests: %v", i+1, err)
		}
		resp.Body.Close()
		select {
		case e := <-evs.ch:
			if got := e.Get("http.url"); got != want {
				t.Fatalf("event %d reports url %q, want %q", i+1, got, want)
			}
		case <-time.After(time.Second):
			t.Fatalf("no event for request %d (%s)", i+1, want)
		}
	}
}
