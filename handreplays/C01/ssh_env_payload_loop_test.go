package ssh

// Hand replay for ssh.(*sshSimulatorService).Handle$4/variant/loop (property C01): the loops that split
// the payload of an "env" or "exec" request into strings ran until Available() == 0, but a string whose
// 4-byte length does not fit (payload of 1..3 bytes, or a trailing rest) is not consumed: the loop then
// appends empty strings forever - one request from a logged-in client makes the process allocate without
// bound. The test runs in a child process (address-space limit, killed after 6 s): after the malformed
// "env" request a "shell" request must still be answered.

import (
	"context"
	"net"
	"os"
	"os/exec"
	"syscall"
	"testing"
	"time"

	"github.com/honeytrap/honeytrap/pushers"
	"github.com/honeytrap/honeytrap/storage"
	xssh "golang.org/x/crypto/ssh"
)

func TestHandSSHEnvPayloadLoop(t *testing.T) {
	cmd := exec.Command(os.Args[0], "-test.run", "TestHandSSHEnvPayloadLoopChild")
	cmd.Env = append(os.Environ(), "C01_CHILD=1")
	if err := cmd.Start(); err != nil {
		t.Fatal(err)
	}
	done := make(chan error, 1)
	go func() { done <- cmd.Wait() }()
	select {
	case err := <-done:
		if err != nil {
			t.Errorf("child failed (fatal error: out of memory before the fix): %v", err)
		}
	case <-time.After(6 * time.Second):
		cmd.Process.Kill()
		t.Errorf("after an env request with a 3-byte payload the session no longer answers (child killed after 6 s)")
	}
}

func TestHandSSHEnvPayloadLoopChild(t *testing.T) {
	if os.Getenv("C01_CHILD") == "" {
		return
	}
	lim := syscall.Rlimit{Cur: 4 << 30, Max: 4 << 30}
	syscall.Setrlimit(syscall.RLIMIT_AS, &lim)
	dir, _ := os.MkdirTemp("", "c01-ssh")
	defer os.RemoveAll(dir)
	storage.SetDataDir(dir)
	s := Simulator().(*sshSimulatorService)
	c, _ := pushers.Dummy()
	s.SetChannel(c)
	s.Credentials = []string{"root:root"}
	l, err := net.Listen("tcp", "127.0.0.1:0")
	if err != nil {
		t.Fatal(err)
	}
	defer l.Close()
	go func() {
		srv, err := l.Accept()
		if err == nil {
			s.Handle(context.Background(), srv)
		}
	}()
	clt, err := net.Dial("tcp", l.Addr().String())
	if err != nil {
		t.Fatal(err)
	}
	defer clt.Close()
	cfg := &xssh.ClientConfig{User: "root", Auth: []xssh.AuthMethod{xssh.Password("root")}, HostKeyCallback: xssh.InsecureIgnoreHostKey(), Timeout: 5 * time.Second}
	cc, chans, reqs, err := xssh.NewClientConn(clt, "pipe", cfg)
	if err != nil {
		t.Fatal(err)
	}
	client := xssh.NewClient(cc, chans, reqs)
	defer client.Close()
	ch, _, err := client.OpenChannel("session", nil)
	if err != nil {
		t.Fatal(err)
	}
	if _, err := ch.SendRequest("env", false, []byte{1, 2, 3}); err != nil {
		t.Fatal(err)
	}
	ok, err := ch.SendRequest("shell", true, nil) // blocks until the server replies
	if err != nil || !ok {
		t.Fatalf("shell request: %v %v", ok, err)
	}
}
