package ldap

// Hand replay for ldap.(*ldapService).Handle (property C03): the connection, its reader, the login and the
// TLS request were kept on the shared service object. With two connections open, (1) the reply to a
// request of the first connection is written to the socket of the second, and (2) a successful bind on
// one connection logs every other connection in.

import (
	"bufio"
	"context"
	"net"
	"os"
	"testing"
	"time"

	ber "github.com/go-asn1-ber/asn1-ber"
	"github.com/honeytrap/honeytrap/pushers"
	"github.com/honeytrap/honeytrap/storage"
)

func c03Bind(id int64, name, password string) []byte {
	p := ber.Encode(ber.ClassUniversal, ber.TypeConstructed, ber.TagSequence, nil, "LDAP Request")
	p.AppendChild(ber.NewInteger(ber.ClassUniversal, ber.TypePrimitive, ber.TagInteger, id, "MessageID"))
	b := ber.Encode(ber.ClassApplication, ber.TypeConstructed, AppBindRequest, nil, "Bind Request")
	b.AppendChild(ber.NewInteger(ber.ClassUniversal, ber.TypePrimitive, ber.TagInteger, int64(3), "Version"))
	b.AppendChild(ber.NewString(ber.ClassUniversal, ber.TypePrimitive, ber.TagOctetString, name, "Name"))
	b.AppendChild(ber.NewString(ber.ClassContext, ber.TypePrimitive, 0, password, "Password"))
	p.AppendChild(b)
	return p.Bytes()
}

func c03Delete(id int64, dn string) []byte {
	p := ber.Encode(ber.ClassUniversal, ber.TypeConstructed, ber.TagSequence, nil, "LDAP Request")
	p.AppendChild(ber.NewInteger(ber.ClassUniversal, ber.TypePrimitive, ber.TagInteger, id, "MessageID"))
	p.AppendChild(ber.NewString(ber.ClassApplication, ber.TypePrimitive, AppDelRequest, dn, "Del Request"))
	return p.Bytes()
}

// reply reads one reply within a second; ok is false when nothing arrives.
func c03Reply(clt net.Conn, r *bufio.Reader) (tag ber.Tag, code int64, ok bool) {
	clt.SetReadDeadline(time.Now().Add(time.Second))
	p, err := ber.ReadPacket(r)
	if err != nil || len(p.Children) < 2 || len(p.Children[1].Children) < 1 {
		return 0, 0, false
	}
	c, _ := p.Children[1].Children[0].Value.(int64)
	return p.Children[1].Tag, c, true
}

func TestHandLDAPSharedSession(t *testing.T) {
	dir, _ := os.MkdirTemp("", "c03-ldap")
	defer os.RemoveAll(dir)
	storage.SetDataDir(dir)
	s := LDAP().(*ldapService)
	s.Credentials = []string{"root:root"}
	c, _ := pushers.Dummy()
	s.SetChannel(c)
	open := func() (net.Conn, *bufio.Reader) {
		clt, srv := net.Pipe()
		go func() { defer srv.Close(); s.Handle(context.Background(), srv) }()
		return clt, bufio.NewReader(clt)
	}
	a, ra := open()
	defer a.Close()
	time.Sleep(50 * time.Millisecond)
	b, rb := open()
	defer b.Close()
	time.Sleep(50 * time.Millisecond)

	// the first connection binds; the reply must come back on the first connection
	go a.Write(c03Bind(1, "root", "root"))
	if _, _, ok := c03Reply(a, ra); !ok {
		if tag, code, okb := c03Reply(b, rb); okb {
			t.Errorf("the reply to the first connection's bind (tag %d code %d) arrived on the second connection", tag, code)
		} else {
			t.Errorf("the first connection got no reply to its bind")
		}
	}
	// the second connection never bound: its delete must be refused
	go b.Write(c03Delete(2, "cn=victim,dc=example,dc=com"))
	if tag, code, ok := c03Reply(b, rb); ok && (tag != AppDelResponse || code != ResUnwillingToPerform) {
		t.Errorf("delete on a connection that never bound: reply tag %d code %d, want code %d (the other connection's login leaked)", tag, code, ResUnwillingToPerform)
	}
}
