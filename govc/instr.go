package main

import (
	"fmt"
	"go/ast"
	"go/constant"
	"go/token"
	"go/types"
	"math/big"
	"sort"
	"strings"

	"golang.org/x/tools/go/ssa"
)

func mapKeys(T types.Type) []string {
	m, ok := T.Underlying().(*types.Map)
	if !ok {
		return nil
	}
	out := []string{"M:" + typeKey(T) + ".present"}
	for k := range leafSorts(m.Elem()) {
		out = append(out, fmt.Sprintf("M:%s.val#%d", typeKey(T), k))
	}
	return out
}

// keysOfPointer: heap keys that a store through the SSA pointer value may write.
func (e *Exec) keysOfPointer(p ssa.Value) []string {
	switch x := p.(type) {
	case *ssa.FieldAddr:
		st := x.X.Type().Underlying().(*types.Pointer).Elem()
		f := structOf(st).Field(x.Field)
		return e.keysOfStorage(st, f.Name(), f.Type())
	case *ssa.IndexAddr:
		var el types.Type
		switch u := x.X.Type().Underlying().(type) {
		case *types.Slice:
			el = u.Elem()
		case *types.Pointer:
			el = u.Elem().Underlying().(*types.Array).Elem()
		}
		return e.keysOfType(el, true)
	case *ssa.Global:
		var out []string
		T := x.Type().Underlying().(*types.Pointer).Elem()
		for k := range leafSorts(T) {
			out = append(out, fmt.Sprintf("G:%s.%s#%d", x.Pkg.Pkg.Path(), x.Name(), k))
		}
		return out
	}
	T := p.Type().Underlying().(*types.Pointer).Elem()
	return e.keysOfType(T, false)
}

// keysOfType: keys written when a value of type T is stored at a first-class pointer
// (elem=false) or as a slice/array element (elem=true).
func (e *Exec) keysOfType(T types.Type, elem bool) []string {
	var out []string
	switch u := T.Underlying().(type) {
	case *types.Struct:
		for i := 0; i < u.NumFields(); i++ {
			out = append(out, e.keysOfStorage(T, u.Field(i).Name(), u.Field(i).Type())...)
		}
		return out
	case *types.Array:
		for k := range leafSorts(u.Elem()) {
			out = append(out, elemKey(u.Elem(), k))
		}
		return out
	}
	for k := range leafSorts(T) {
		if elem {
			out = append(out, elemKey(T, k))
		} else {
			out = append(out, boxKey(T, k))
		}
	}
	return out
}

func (e *Exec) keysOfStorage(st types.Type, fname string, ft types.Type) []string {
	if isAggregate(ft) {
		return e.keysOfType(ft, false)
	}
	var out []string
	for k := range leafSorts(ft) {
		out = append(out, fieldKey(st, fname, k))
	}
	return out
}

// ---------------------------------------------------------------- values

func (fr *Frame) val(v ssa.Value) Val {
	e := fr.e
	switch x := v.(type) {
	case *ssa.Const:
		return e.constVal(x)
	case *ssa.Function:
		return Val{T: x.Type(), S: "1", Fn: x, NN: true}
	case *ssa.Global:
		T := x.Type().Underlying().(*types.Pointer).Elem()
		name := x.Pkg.Pkg.Path() + "." + x.Name()
		if isAggregate(T) {
			g := sym("gref_" + name)
			e.once("gref:"+g, func() {
				e.emit("(declare-const " + g + " Int)")
				e.assume(app("<", g, "0"))
				e.assume(mkEq(app("mod", g, fmt.Sprint(stride)), "0"))
			})
			return Val{T: x.Type(), S: g, NN: true}
		}
		return Val{T: x.Type(), A: &Addr{Kind: aGlobal, T: T, Key: "G:" + name}, NN: true}
	case *ssa.Builtin:
		return Val{T: x.Type()}
	}
	if r, ok := fr.vals[v]; ok {
		return r
	}
	e.flag("undefined-value:" + v.Name())
	r := e.freshVal(v.Type(), "undef_"+v.Name(), fr.pc)
	fr.vals[v] = r
	return r
}

func (e *Exec) constVal(c *ssa.Const) Val {
	T := c.Type()
	if c.Value == nil { // zero value / nil
		if kindOf(T) == kTuple {
			return zeroVal(T)
		}
		return zeroVal(T)
	}
	switch scalarSort(T) {
	case sBool:
		if constant.BoolVal(c.Value) {
			return Val{T: T, S: "true"}
		}
		return Val{T: T, S: "false"}
	case sStr:
		return Val{T: T, S: e.strLit(constant.StringVal(c.Value))}
	case sF64:
		f, _ := constant.Float64Val(c.Value)
		name := sym(fmt.Sprintf("f64lit_%v", f))
		e.once("f64:"+name, func() { e.emit("(declare-const " + name + " F64)") })
		return Val{T: T, S: name}
	}
	if w, _, ok := intInfo(T); ok {
		bi, ok2 := new(big.Int).SetString(c.Value.ExactString(), 10)
		if !ok2 {
			if i64, exact := constant.Int64Val(constant.ToInt(c.Value)); exact {
				bi = big.NewInt(i64)
			} else {
				bi = big.NewInt(0)
			}
		}
		return Val{T: T, S: bvLit(w, bi)}
	}
	e.flag("const:" + T.String())
	return zeroVal(T)
}

func (e *Exec) toBV64(v Val) string {
	if isUntyped(v) {
		if bi, ok := new(big.Int).SetString(v.S, 10); ok {
			return bvLit(64, bi)
		}
	}
	w, signed, ok := intInfo(v.T)
	if !ok {
		return v.S
	}
	return resizeBV(v.S, w, signed, 64)
}

func resizeBV(t string, from int, signed bool, to int) string {
	switch {
	case from == to:
		return t
	case from > to:
		return fmt.Sprintf("((_ extract %d 0) %s)", to-1, t)
	case signed:
		return fmt.Sprintf("((_ sign_extend %d) %s)", to-from, t)
	default:
		return fmt.Sprintf("((_ zero_extend %d) %s)", to-from, t)
	}
}

// ---------------------------------------------------------------- instruction semantics

func (fr *Frame) anchor(in ssa.Instruction) string {
	return fr.prefix + fr.e.L.srcAnchor(fr.fn, in)
}

func (fr *Frame) set(v ssa.Value, x Val) {
	x.T = v.Type()
	fr.vals[v] = x
}

func (fr *Frame) nilCheck(in ssa.Instruction, p Val, what string) {
	if p.NN || p.A != nil {
		return
	}
	if !fr.e.enabled("nil") {
		return
	}
	fr.e.oblige("nil", fr.anchor(in), fr.pc, mkNot(mkEq(p.S, "0")), fr.e.posOf(in.Pos()), "nil dereference: "+what)
}

// execInstr returns true when the block is finished (terminator executed).
func (fr *Frame) execInstr(in ssa.Instruction) bool {
	e := fr.e
	e.curInstr = in
	pos := e.posOf(in.Pos())
	switch x := in.(type) {
	case *ssa.DebugRef:
		// remember the current value of named local variables for contract expressions
		if !x.IsAddr && fr.depth == 0 {
			if fr.debugVals == nil {
				fr.debugVals = map[string]Val{}
			}
			if id, ok := x.Expr.(*ast.Ident); ok {
				if v, ok := fr.vals[x.X]; ok {
					fr.debugVals[id.Name] = v
					fr.debugSrc = append(fr.debugSrc, debugBind{id.Name, x.X, x.Block()})
				}
			} else if name, ok := fr.e.L.assignedName(fr.fn, x.Expr); ok {
				// the right-hand side of `name := expr` / `name = expr`
				if v, ok := fr.vals[x.X]; ok {
					fr.debugVals[name] = v
					fr.debugSrc = append(fr.debugSrc, debugBind{name, x.X, x.Block()})
				}
			}
		}
		return false
	case *ssa.Alloc:
		T := x.Type().Underlying().(*types.Pointer).Elem()
		r := e.newRef(fr.st, x.Name())
		e.zeroInit(fr.st, r, T)
		e.zeroGhosts(fr, r, T)
		if !x.Heap || nonEscaping(x, 0) || (!isAggregate(T) && capturedReadOnly(x, 0)) {
			if st := structOf(T); st != nil {
				var keys []string
				for i := 0; i < st.NumFields(); i++ {
					if !isAggregate(st.Field(i).Type()) {
						keys = append(keys, e.keysOfStorage(T, st.Field(i).Name(), st.Field(i).Type())...)
					}
				}
				e.registerLocal(r, fr.pc, keys)
			} else if !isAggregate(T) {
				e.registerLocal(r, fr.pc, e.keysOfType(T, false))
			} else if arr, ok := T.Underlying().(*types.Array); ok && !isAggregate(arr.Elem()) {
				e.registerLocal(r, fr.pc, e.keysOfType(T, false))
			}
		}
		if x.Heap && !nonEscaping(x, 0) {
			// escapes, but perhaps only later: until then calls with unknown effects cannot reach it
			if st := structOf(T); st != nil {
				if sites, ok := escapeSites(x, 0); ok && len(sites) > 0 {
					var keys []string
					for i := 0; i < st.NumFields(); i++ {
						ft := st.Field(i).Type()
						if _, isSlice := ft.Underlying().(*types.Slice); isSlice || !isAggregate(ft) {
							keys = append(keys, e.keysOfStorage(T, st.Field(i).Name(), ft)...)
						}
					}
					e.registerLocalUntil(r, fr.pc, keys, x.Parent(), sites)
				}
			} else if arr, ok := T.Underlying().(*types.Array); ok && !isAggregate(arr.Elem()) {
				if sites, ok := escapeSites(x, 0); ok && len(sites) > 0 {
					e.registerLocalUntil(r, fr.pc, e.keysOfType(T, false), x.Parent(), sites)
				}
			}
		}
		fr.set(x, Val{S: r, NN: true})
	case *ssa.UnOp:
		fr.execUnOp(x)
	case *ssa.BinOp:
		if cx, ok := x.X.(*ssa.Const); ok {
			if cy, ok := x.Y.(*ssa.Const); ok && cx.Value != nil && cy.Value != nil && (x.Op == token.EQL || x.Op == token.NEQ) {
				eq := constant.Compare(cx.Value, token.EQL, cy.Value)
				if x.Op == token.NEQ {
					eq = !eq
				}
				fr.set(x, Val{S: fmt.Sprint(eq)})
				return false
			}
		}
		fr.set(x, fr.binop(x, x.Op, fr.val(x.X), fr.val(x.Y)))
	case *ssa.Store:
		a := fr.val(x.Addr)
		v := fr.val(x.Val)
		if a.A != nil {
			e.storeAddr(fr.st, a.A, v)
		} else {
			fr.nilCheck(in, a, "store")
			T := x.Addr.Type().Underlying().(*types.Pointer).Elem()
			e.storeAt(fr.st, a.S, T, v)
		}
	case *ssa.FieldAddr:
		p := fr.val(x.X)
		fr.nilCheck(in, p, "field address")
		ST := x.X.Type().Underlying().(*types.Pointer).Elem()
		f := structOf(ST).Field(x.Field)
		if isAggregate(f.Type()) {
			fr.set(x, Val{S: subRef(p.S, ST, f.Name()), NN: true})
		} else {
			fr.set(x, Val{A: &Addr{Kind: aField, T: f.Type(), Ref: p.S, Key: fmt.Sprintf("F:%s.%s", typeKey(ST), f.Name())}, NN: true})
		}
	case *ssa.Field:
		s := fr.val(x.X)
		fr.set(x, s.F[x.Field])
	case *ssa.IndexAddr:
		fr.execIndexAddr(x)
	case *ssa.Index:
		c := fr.val(x.X)
		idx := e.toBV64(fr.val(x.Index))
		switch u := x.X.Type().Underlying().(type) {
		case *types.Array:
			e.check("bounds", fr.anchor(in), fr.pc, mkAnd(app("bvsle", bvLitI(64, 0), idx), app("bvslt", idx, bvLitI(64, u.Len()))), pos, "array index")
			var terms []string
			for _, f := range c.F {
				terms = append(terms, sel(f.S, idx))
			}
			fr.set(x, unflatten(u.Elem(), &terms))
		default: // string
			e.check("bounds", fr.anchor(in), fr.pc, mkAnd(app("bvsle", bvLitI(64, 0), idx), app("bvslt", idx, app("slen", c.S))), pos, "string index")
			fr.set(x, Val{S: app("sat", c.S, idx)})
		}
	case *ssa.Slice:
		fr.execSlice(x)
	case *ssa.MakeSlice:
		ln := e.toBV64(fr.val(x.Len))
		cp := e.toBV64(fr.val(x.Cap))
		e.check("makelen", fr.anchor(in), fr.pc, mkAnd(app("bvsle", bvLitI(64, 0), ln), app("bvsle", ln, cp), app("bvsle", cp, bvLitI(64, 1<<42))), pos, "make: negative or oversized length")
		el := x.Type().Underlying().(*types.Slice).Elem()
		r := e.newRef(fr.st, x.Name())
		e.zeroElems(fr.st, r, el)
		if !isAggregate(el) && nonEscaping(x, 0) {
			e.registerLocal(r, fr.pc, e.keysOfType(el, true))
		}
		v := mkSlice(x.Type(), r, bvLitI(64, 0), ln, cp)
		v.NN = true
		fr.set(x, v)
	case *ssa.MakeMap:
		r := e.newRef(fr.st, x.Name())
		e.initMap(fr.st, r, x.Type())
		fr.set(x, Val{S: r, NN: true})
	case *ssa.MakeChan:
		r := e.newRef(fr.st, x.Name())
		fr.set(x, Val{S: r, NN: true})
	case *ssa.MakeClosure:
		var binds []Val
		for _, b := range x.Bindings {
			binds = append(binds, fr.val(b))
		}
		r := e.newRef(fr.st, x.Name())
		e.fnStatic[r] = Val{Fn: x.Fn.(*ssa.Function), Binds: binds}
		// a closure made here has not been called yet: its ghost call counters (integer ghost fields
		// owned by function values, e.g. fn.ncalls) start at zero
		for _, g := range e.L.specs.Ghosts {
			if g.Owner == "fn" && g.Type == "int" {
				srt := arrSort(sRef, bvSort(64))
				key := "X:" + g.Name
				e.heapSet(fr.st, key, srt, sto(e.heapGet(fr.st, key, srt), r, bvLitI(64, 0)))
			}
		}
		fr.set(x, Val{S: r, Fn: x.Fn.(*ssa.Function), Binds: binds, NN: true})
	case *ssa.MakeInterface:
		v := fr.val(x.X)
		v.T = x.X.Type()
		b := e.box(v, x.Type())
		b.NN = true
		fr.set(x, b)
	case *ssa.ChangeInterface:
		v := fr.val(x.X)
		fr.set(x, v)
	case *ssa.ChangeType:
		v := fr.val(x.X)
		fr.set(x, v)
	case *ssa.Convert:
		fr.execConvert(x)
	case *ssa.Extract:
		t := fr.val(x.Tuple)
		fr.set(x, t.F[x.Index])
	case *ssa.TypeAssert:
		fr.execTypeAssert(x)
	case *ssa.Lookup:
		fr.execLookup(x)
	case *ssa.MapUpdate:
		fr.execMapUpdate(x)
	case *ssa.Range:
		fr.set(x, Val{S: "0"})
		if _, isMap := x.X.Type().Underlying().(*types.Map); isMap {
			// ghost set of the keys this iteration has delivered so far
			if ks, ok := e.mapSorts(x.X.Type()); ok {
				key := rangeKey(x)
				srt := arrSort(ks, sBool)
				e.heapSet(fr.st, key, srt, constArr(srt, "false"))
			}
		}
	case *ssa.Next:
		v := e.freshVal(x.Type(), "next_"+x.Name(), fr.pc)
		if rg, ok := x.Iter.(*ssa.Range); ok && !x.IsString {
			if mt, isMap := rg.X.Type().Underlying().(*types.Map); isMap {
				// an element delivered by the iteration is an entry of the map
				if ks, okk := e.mapSorts(rg.X.Type()); okk {
					m := fr.val(rg.X)
					MT := rg.X.Type()
					kterm := v.F[1].leaves()
					if len(kterm) == 1 {
						pres := sel(sel(e.heapGet(fr.st, "M:"+typeKey(MT)+".present", arrSort(sRef, arrSort(ks, sBool))), m.S), kterm[0])
						var eqs []string
						vl := v.F[2].leaves()
						for i, srt := range leafSorts(mt.Elem()) {
							arr := e.heapGet(fr.st, fmt.Sprintf("M:%s.val#%d", typeKey(MT), i), arrSort(sRef, arrSort(ks, srt)))
							// "for k := range m": go/ssa gives the unused value component an invalid type; it has no value to relate
							valUsed := true
							if tt, okT := x.Type().(*types.Tuple); okT && tt.Len() == 3 {
								if bt, okB := tt.At(2).Type().(*types.Basic); okB && bt.Kind() == types.Invalid {
									valUsed = false
								}
							}
							if i < len(vl) && valUsed {
								eqs = append(eqs, mkEq(vl[i], sel(sel(arr, m.S), kterm[0])))
							}
						}
						e.assume(mkImp(mkAnd(fr.pc, v.F[0].S), mkAnd(append([]string{pres, mkNot(mkEq(m.S, "0"))}, eqs...)...)))
						// every key is delivered exactly once: the delivered key is new, and the
						// iteration ends only when all present keys have been delivered
						// (assumption: the map is not modified while it is ranged over)
						rk := rangeKey(rg)
						vsrt := arrSort(ks, sBool)
						vis := e.heapGet(fr.st, rk, vsrt)
						e.assume(mkImp(mkAnd(fr.pc, v.F[0].S), mkNot(sel(vis, kterm[0]))))
						e.nf++
						q := sym(fmt.Sprintf("q_k!%d", e.nf))
						allPres := sel(sel(e.heapGet(fr.st, "M:"+typeKey(MT)+".present", arrSort(sRef, arrSort(ks, sBool))), m.S), q)
						e.assume(mkImp(mkAnd(fr.pc, mkNot(v.F[0].S)), "(forall (("+q+" "+ks+")) (=> "+allPres+" "+sel(vis, q)+"))"))
						e.heapSet(fr.st, rk, vsrt, mkIte(v.F[0].S, sto(vis, kterm[0], "true"), vis))
					}
				}
			}
		}
		fr.set(x, v)
	case *ssa.Select:
		v := e.freshVal(x.Type(), "select_"+x.Name(), fr.pc)
		// index in range
		n := int64(len(x.States))
		lo := int64(0)
		if !x.Blocking {
			lo = -1
		}
		e.assume(mkImp(fr.pc, mkAnd(app("bvsle", bvLitI(64, lo), v.F[0].S), app("bvslt", v.F[0].S, bvLitI(64, n)))))
		e.flag("select")
		for k, stt := range x.States {
			if stt.Dir == types.SendOnly {
				fr.chanSend(x, stt.Chan, stt.Send, mkAnd(fr.pc, mkEq(v.F[0].S, bvLitI(64, int64(k)))))
			}
		}
		fr.set(x, v)
	case *ssa.Send:
		e.flag("chan-send")
		fr.chanSend(x, x.Chan, x.X, fr.pc)
	case *ssa.Go:
		e.flag("go")
		fr.checkGo(x)
	case *ssa.Defer:
		cc := x.Common()
		var args []Val
		for _, a := range cc.Args {
			args = append(args, fr.val(a))
		}
		var fv Val
		if !cc.IsInvoke() {
			fv = fr.val(cc.Value)
		} else {
			fv = fr.val(cc.Value)
		}
		fr.defers = append(fr.defers, deferRec{instr: x, block: fr.cur, fnVal: fv, args: args})
	case *ssa.RunDefers:
		fr.runDefers()
	case *ssa.Call:
		fr.execCall(x)
	case *ssa.If:
		c := fr.val(x.Cond).S
		b := fr.cur
		fr.setEdge(b, b.Succs[0], mkAnd(fr.pc, c))
		fr.setEdge(b, b.Succs[1], mkAnd(fr.pc, mkNot(c)))
		return true
	case *ssa.Jump:
		fr.setEdge(fr.cur, fr.cur.Succs[0], fr.pc)
		return true
	case *ssa.Return:
		var rv Val
		switch len(x.Results) {
		case 0:
		case 1:
			rv = fr.val(x.Results[0])
			rv.T = fr.fn.Signature.Results().At(0).Type()
		default:
			rv = Val{T: fr.fn.Signature.Results()}
			for i, r := range x.Results {
				v := fr.val(r)
				v.T = fr.fn.Signature.Results().At(i).Type()
				rv.F = append(rv.F, v)
			}
		}
		if fr.top {
			e.atReturn(fr, x, rv)
		}
		fr.rets = append(fr.rets, retRec{pc: fr.pc, val: rv, st: fr.st.clone(), blk: fr.cur})
		return true
	case *ssa.Panic:
		if e.enabled("panic") {
			e.oblige("panic", fr.anchor(in), fr.pc, "false", pos, "explicit panic reachable")
		}
		return true
	case *ssa.SliceToArrayPointer, *ssa.MultiConvert:
		e.flag("unsupported:" + fmt.Sprintf("%T", in))
		fr.set(x.(ssa.Value), e.freshVal(x.(ssa.Value).Type(), "unsup", fr.pc))
	default:
		e.flag("unsupported:" + fmt.Sprintf("%T", in))
		if v, ok := in.(ssa.Value); ok {
			fr.set(v, e.freshVal(v.Type(), "unsup", fr.pc))
		}
	}
	return false
}

func (e *Exec) zeroElems(st *State, ref string, el types.Type) {
	if isAggregate(el) {
		e.flag("slice-of-aggregates")
		return
	}
	for k, s := range leafSorts(el) {
		srt := arrSort(sRef, arrSort(sBV64, s))
		key := elemKey(el, k)
		arr := e.heapGet(st, key, srt)
		e.heapSet(st, key, srt, sto(arr, ref, constArr(arrSort(sBV64, s), zeroLeaf(s))))
	}
}

func (fr *Frame) execUnOp(x *ssa.UnOp) {
	e := fr.e
	v := fr.val(x.X)
	switch x.Op {
	case token.MUL:
		T := x.Type()
		var r Val
		if v.A != nil {
			r = e.loadAddr(fr.st, v.A)
			r.NN = !e.L.isNullableAddr(v.A)
			if v.A.Kind == aElem {
				r.NN = false // elements of slices/arrays of pointers may be nil
			}
		} else {
			fr.nilCheck(x, v, "load")
			r = e.loadAt(fr.st, v.S, T)
			r.NN = true
			if _, isIface := T.Underlying().(*types.Interface); isIface {
				r.NN = false
			}
		}
		if _, isIface := T.Underlying().(*types.Interface); isIface {
			// A2 covers interface-typed struct fields too (not locals, elements or globals)
			r.NN = v.A != nil && v.A.Kind == aField && !e.L.isNullableAddr(v.A)
		}
		if scalarSort(T) == sIface && kindOf(T) == kScalar {
			// store forwarding recovered the very constant that was stored: its dynamic type is known
			if sv, ok := e.ifaceStatic[r.S]; ok {
				r.Dyn, r.DynV = sv.Dyn, sv.DynV
				r.NN = true
			}
		}
		if _, isFn := T.Underlying().(*types.Signature); isFn {
			if sv, ok := e.fnStatic[r.S]; ok {
				r.Fn, r.Binds = sv.Fn, sv.Binds
			}
		}
		e.assumeRefsOld(r, fr.pc, fr.st.alloc)
		e.assumeTypeInv(r, fr.pc)
		fr.set(x, r)
	case token.NOT:
		fr.set(x, Val{S: mkNot(v.S)})
	case token.SUB:
		if scalarSort(x.Type()) == sF64 {
			fr.set(x, e.freshVal(x.Type(), "fneg", fr.pc))
			return
		}
		fr.set(x, Val{S: app("bvneg", v.S)})
	case token.XOR:
		fr.set(x, Val{S: app("bvnot", v.S)})
	case token.ARROW:
		e.flag("chan-recv")
		fr.set(x, e.freshVal(x.Type(), "recv", fr.pc))
	default:
		e.flag("unsupported-unop:" + x.Op.String())
		fr.set(x, e.freshVal(x.Type(), "unop", fr.pc))
	}
}

func (fr *Frame) execIndexAddr(x *ssa.IndexAddr) {
	e := fr.e
	c := fr.val(x.X)
	idx := e.toBV64(fr.val(x.Index))
	pos := e.posOf(x.Pos())
	switch u := x.X.Type().Underlying().(type) {
	case *types.Slice:
		e.check("bounds", fr.anchor(x), fr.pc, mkAnd(app("bvsle", bvLitI(64, 0), idx), app("bvslt", idx, c.sLen())), pos, "slice index")
		abs := bvAdd(c.sOff(), idx)
		if isAggregate(u.Elem()) {
			fr.set(x, Val{S: e.elemRef(u.Elem(), c.sBase(), abs), NN: true})
		} else {
			fr.set(x, Val{A: &Addr{Kind: aElem, T: u.Elem(), Ref: c.sBase(), Idx: abs, Key: "E:" + typeKey(u.Elem())}, NN: true})
		}
	case *types.Pointer:
		arr := u.Elem().Underlying().(*types.Array)
		fr.nilCheck(x, c, "array pointer index")
		e.check("bounds", fr.anchor(x), fr.pc, mkAnd(app("bvsle", bvLitI(64, 0), idx), app("bvslt", idx, bvLitI(64, arr.Len()))), pos, "array index")
		if isAggregate(arr.Elem()) {
			fr.set(x, Val{S: e.elemRef(arr.Elem(), c.S, idx), NN: true})
		} else {
			fr.set(x, Val{A: &Addr{Kind: aElem, T: arr.Elem(), Ref: c.S, Idx: idx, Key: "E:" + typeKey(arr.Elem())}, NN: true})
		}
	}
}

func (e *Exec) elemRef(el types.Type, base, idx string) string {
	name := sym("eref_" + typeKey(el))
	e.once("eref:"+name, func() { e.emit("(declare-fun " + name + " (Int (_ BitVec 64)) Int)") })
	return app(name, base, idx)
}

func (fr *Frame) execSlice(x *ssa.Slice) {
	e := fr.e
	c := fr.val(x.X)
	pos := e.posOf(x.Pos())
	zero := bvLitI(64, 0)
	get := func(v ssa.Value, def string) string {
		if v == nil {
			return def
		}
		return e.toBV64(fr.val(v))
	}
	switch u := x.X.Type().Underlying().(type) {
	case *types.Slice:
		lo := get(x.Low, zero)
		hi := get(x.High, c.sLen())
		mx := get(x.Max, c.sCap())
		e.check("bounds", fr.anchor(x), fr.pc, mkAnd(app("bvsle", zero, lo), app("bvsle", lo, hi), app("bvsle", hi, mx), app("bvsle", mx, c.sCap())), pos, "slice bounds")
		v := mkSlice(x.Type(), c.sBase(), bvAdd(c.sOff(), lo), bvSub(hi, lo), bvSub(mx, lo))
		fr.set(x, v)
	case *types.Basic: // string
		lo := get(x.Low, zero)
		hi := get(x.High, app("slen", c.S))
		e.check("bounds", fr.anchor(x), fr.pc, mkAnd(app("bvsle", zero, lo), app("bvsle", lo, hi), app("bvsle", hi, app("slen", c.S))), pos, "string slice bounds")
		fr.set(x, Val{S: e.substr(c.S, lo, hi, fr.pc)})
	case *types.Pointer:
		arr := u.Elem().Underlying().(*types.Array)
		n := bvLitI(64, arr.Len())
		fr.nilCheck(x, c, "array pointer slice")
		lo := get(x.Low, zero)
		hi := get(x.High, n)
		mx := get(x.Max, n)
		e.check("bounds", fr.anchor(x), fr.pc, mkAnd(app("bvsle", zero, lo), app("bvsle", lo, hi), app("bvsle", hi, mx), app("bvsle", mx, n)), pos, "array slice bounds")
		v := mkSlice(x.Type(), c.S, lo, bvSub(hi, lo), bvSub(mx, lo))
		v.NN = true
		fr.set(x, v)
	}
}

func (e *Exec) substr(s, lo, hi, pc string) string {
	e.needSsub()
	if lo == bvLitI(64, 0) && hi == app("slen", s) {
		return s
	}
	t := app("ssub", s, lo, hi)
	if e.ssubCache == nil {
		e.ssubCache = map[string]string{}
	}
	// the length fact holds for bounds that are in range only (a contract may mention s[a:b] in a
	// state where the bounds are not: that must not make the context inconsistent)
	inRange := mkAnd(app("bvsle", bvLitI(64, 0), lo), app("bvsle", lo, hi), app("bvsle", hi, app("slen", s)))
	if n, ok := e.ssubCache[t]; ok {
		return n
	}
	n := e.fresh("sub", sStr)
	e.ssubCache[t] = n
	e.assume(mkEq(n, t))
	e.assume(mkImp(inRange, mkEq(app("slen", n), bvSub(hi, lo))))
	e.strInv(n, "true")
	e.ssubChars(n, s, lo, hi, inRange)
	b := ssubEntry{s: s, lo: lo, hi: hi, name: n, guard: "true"}
	// a substring of a substring is a substring of the original (stated for the instance at hand)
	e.ssubChain(b, 0)
	e.ssubReg = append(e.ssubReg, b)
	if len(e.ssubReg) <= 24 {
		for _, f := range e.sfromReg {
			e.ssubLemma(f, b)
		}
	}
	return n
}

func (fr *Frame) binop(in ssa.Instruction, op token.Token, a, b Val) Val {
	e := fr.e
	T := a.T
	if _, isb := T.Underlying().(*types.Basic); !isb || a.S == "" {
		// pointers, interfaces, structs...
		switch op {
		case token.EQL, token.NEQ:
			eq := fr.valEq(a, b)
			if op == token.NEQ {
				eq = mkNot(eq)
			}
			return Val{T: tBool, S: eq}
		}
		e.flag("unsupported-binop:" + op.String() + ":" + T.String())
		return e.freshVal(resultTypeOf(in), "binop", fr.pc)
	}
	srt := scalarSort(T)
	if (srt == sLst || srt == sIface) && (op == token.EQL || op == token.NEQ) {
		eq := mkEq(a.S, b.S)
		if op == token.NEQ {
			eq = mkNot(eq)
		}
		return Val{T: tBool, S: eq}
	}
	switch srt {
	case sBool:
		switch op {
		case token.EQL:
			return Val{T: tBool, S: mkEq(a.S, b.S)}
		case token.NEQ:
			return Val{T: tBool, S: mkNot(mkEq(a.S, b.S))}
		case token.LAND:
			return Val{T: tBool, S: mkAnd(a.S, b.S)}
		case token.LOR:
			return Val{T: tBool, S: mkOr(a.S, b.S)}
		}
	case sStr:
		switch op {
		case token.EQL:
			return Val{T: tBool, S: e.strEq(a.S, b.S)}
		case token.NEQ:
			return Val{T: tBool, S: mkNot(e.strEq(a.S, b.S))}
		case token.ADD:
			return Val{T: T, S: e.concat(a.S, b.S, fr.pc)}
		}
		e.flag("string-compare")
		return e.freshVal(resultTypeOf(in), "strcmp", fr.pc)
	case sF64:
		e.flag("float")
		return e.freshVal(resultTypeOf(in), "fop", fr.pc)
	case sRef:
		switch op {
		case token.EQL:
			return Val{T: tBool, S: mkEq(a.S, b.S)}
		case token.NEQ:
			return Val{T: tBool, S: mkNot(mkEq(a.S, b.S))}
		}
	}
	w, signed, ok := intInfo(T)
	if !ok {
		e.flag("unsupported-binop:" + op.String() + ":" + T.String())
		return e.freshVal(resultTypeOf(in), "binop", fr.pc)
	}
	bin := func(f string) Val { return Val{T: T, S: app(f, a.S, b.S)} }
	cmp := func(s, u string) Val {
		if signed {
			return Val{T: tBool, S: app(s, a.S, b.S)}
		}
		return Val{T: tBool, S: app(u, a.S, b.S)}
	}
	switch op {
	case token.ADD:
		return bin("bvadd")
	case token.SUB:
		return bin("bvsub")
	case token.MUL:
		return bin("bvmul")
	case token.QUO, token.REM:
		if in != nil {
			e.check("div0", fr.anchor(in), fr.pc, mkNot(mkEq(b.S, bvLitI(w, 0))), e.posOf(in.Pos()), "division by zero")
		}
		if op == token.QUO {
			if signed {
				return bin("bvsdiv")
			}
			return bin("bvudiv")
		}
		if signed {
			return bin("bvsrem")
		}
		return bin("bvurem")
	case token.AND:
		return bin("bvand")
	case token.OR:
		return bin("bvor")
	case token.XOR:
		return bin("bvxor")
	case token.AND_NOT:
		return Val{T: T, S: app("bvand", a.S, app("bvnot", b.S))}
	case token.SHL, token.SHR:
		bw, bsigned, _ := intInfo(b.T)
		if bsigned && in != nil {
			e.check("shift", fr.anchor(in), fr.pc, app("bvsle", bvLitI(bw, 0), b.S), e.posOf(in.Pos()), "negative shift count")
		}
		cnt64 := resizeBV(b.S, bw, false, 64)
		if bw > 64 {
			cnt64 = b.S
		}
		big := app("bvuge", cnt64, bvLitI(64, int64(w)))
		cnt := resizeBV(cnt64, 64, false, w)
		if op == token.SHL {
			return Val{T: T, S: mkIte(big, bvLitI(w, 0), app("bvshl", a.S, cnt))}
		}
		if signed {
			return Val{T: T, S: mkIte(big, app("bvashr", a.S, bvLitI(w, int64(w-1))), app("bvashr", a.S, cnt))}
		}
		return Val{T: T, S: mkIte(big, bvLitI(w, 0), app("bvlshr", a.S, cnt))}
	case token.EQL:
		return Val{T: tBool, S: mkEq(a.S, b.S)}
	case token.NEQ:
		return Val{T: tBool, S: mkNot(mkEq(a.S, b.S))}
	case token.LSS:
		return cmp("bvslt", "bvult")
	case token.LEQ:
		return cmp("bvsle", "bvule")
	case token.GTR:
		return cmp("bvsgt", "bvugt")
	case token.GEQ:
		return cmp("bvsge", "bvuge")
	}
	e.flag("unsupported-binop:" + op.String())
	return e.freshVal(resultTypeOf(in), "binop", fr.pc)
}

func resultTypeOf(in ssa.Instruction) types.Type {
	if v, ok := in.(ssa.Value); ok {
		return v.Type()
	}
	return tBool
}

func (fr *Frame) valEq(a, b Val) string {
	la, lb := a.leaves(), b.leaves()
	if kindOf(a.T) == kSlice {
		// only comparison with nil is legal
		return mkEq(la[0], lb[0])
	}
	if len(la) != len(lb) {
		fr.e.flag("valEq-mismatch")
		return fr.e.fresh("eq", sBool)
	}
	var cs []string
	for i := range la {
		cs = append(cs, mkEq(la[i], lb[i]))
	}
	return mkAnd(cs...)
}

func (e *Exec) strEq(a, b string) string { return mkEq(a, b) }

func (e *Exec) concat(a, b, pc string) string {
	e.once("sconcat", func() {
		e.emit("(declare-fun sconcat (Str Str) Str)")
	})
	if a == "str.empty" {
		return b
	}
	if b == "str.empty" {
		return a
	}
	n := e.fresh("cat", sStr)
	e.assume(mkEq(n, app("sconcat", a, b)))
	e.assume(mkEq(app("slen", n), bvAdd(app("slen", a), app("slen", b))))
	e.assume(mkAnd(mkImp(mkEq(a, "str.empty"), mkEq(n, b)), mkImp(mkEq(b, "str.empty"), mkEq(n, a))))
	e.strInv(n, pc)
	if e.spec != nil && e.spec.Options["catlemmas"] && !e.inCatLemma {
		// the two halves of a concatenation are substrings of it (stated for this instance; together
		// with the substring-of-substring instances this relates positions in nested concatenations)
		e.inCatLemma = true
		la := app("slen", a)
		p := e.substr(n, bvLitI(64, 0), la, pc)
		e.assume(mkEq(p, a))
		e.noteAlias(a, p)
		q := e.substr(n, la, app("slen", n), pc)
		e.assume(mkEq(q, b))
		e.noteAlias(b, q)
		e.inCatLemma = false
	}
	return n
}

func (fr *Frame) execConvert(x *ssa.Convert) {
	e := fr.e
	v := fr.val(x.X)
	from, to := x.X.Type(), x.Type()
	fw, fsigned, fint := intInfo(from)
	tw, _, tint := intInfo(to)
	switch {
	case fint && tint:
		fr.set(x, Val{S: resizeBV(v.S, fw, fsigned, tw)})
	case scalarSort(from) == sStr && kindOf(to) == kSlice:
		// []byte(s): fresh backing array holding the bytes of s
		r := e.newRef(fr.st, x.Name())
		el := to.Underlying().(*types.Slice).Elem()
		if w, _, ok := intInfo(el); !ok || w != 8 {
			e.flag("string-to-runes")
			fr.set(x, e.freshVal(to, "conv", fr.pc))
			return
		}
		srt := arrSort(sRef, arrSort(sBV64, bvSort(8)))
		key := elemKey(el, 0)
		arr := e.heapGet(fr.st, key, srt)
		content := e.fresh("bytes_of_str", arrSort(sBV64, bvSort(8)))
		e.defArray(content, "i!s", app("sat", v.S, "i!s"))
		// built-in fact: the string of the bytes of s is s
		e.needSfrom()
		e.assume(mkEq(app("sfrom", content, bvLitI(64, 0), app("slen", v.S)), v.S))
		e.heapSet(fr.st, key, srt, sto(arr, r, content))
		ln := app("slen", v.S)
		sl := mkSlice(to, r, bvLitI(64, 0), ln, ln)
		sl.NN = true
		fr.set(x, sl)
	case kindOf(from) == kSlice && scalarSort(to) == sStr:
		el := from.Underlying().(*types.Slice).Elem()
		if w, _, ok := intInfo(el); !ok || w != 8 {
			e.flag("runes-to-string")
			fr.set(x, e.freshVal(to, "conv", fr.pc))
			return
		}
		fr.set(x, Val{S: e.strOfBytes(fr.st, v, fr.pc)})
	case fint && scalarSort(to) == sStr:
		e.flag("int-to-string")
		fr.set(x, e.freshVal(to, "conv", fr.pc))
	case scalarSort(from) == sF64 || scalarSort(to) == sF64:
		e.flag("float")
		fr.set(x, e.freshVal(to, "fconv", fr.pc))
	case scalarSort(from) == sRef && scalarSort(to) == sRef:
		fr.set(x, v)
	default:
		e.flag("unsupported-convert:" + from.String() + "->" + to.String())
		fr.set(x, e.freshVal(to, "conv", fr.pc))
	}
}

// sfromEntry records a string taken from a byte range, so that a later write to another range of the
// same backing array can state that the string of this range is unchanged (see havocLoc).
type sfromEntry struct{ base, off, ln, name, arr string }

// ssubEntry records a substring term. For every pair (string taken from bytes, substring) the lemma
//
//	s == sfrom(a,o,l) && 0 <= lo <= hi <= l  ==>  ssub(s,lo,hi) == sfrom(a, o+lo, hi-lo)
//
// is stated at generation time (strings are determined by their length and characters); a quantified
// axiom with the same content made unrelated proofs unstable.
type ssubEntry struct{ s, lo, hi, name, guard string }

// ssubChain: a substring of a substring is a substring of the original. For the new entry b (name ==
// ssub(b.s, b.lo, b.hi) under b.guard) and every registered entry o whose name may be b.s, the instance
//
//	b.s == o.name && bounds ==> b.name == ssub(o.s, o.lo+b.lo, o.lo+b.hi)
//
// is stated, and the derived fact is chained further (depth-limited), so that a sequence of reads that
// each consume a prefix is related to offsets in the original input.
func (e *Exec) ssubChain(b ssubEntry, depth int) {
	e.ssubChainWith(b, depth, "")
}

// aliasNoted: the term x was equated with the substring name sub after substrings of x had already been
// taken: relate those to what sub is a substring of.
func (e *Exec) aliasNoted(x, sub string) {
	if e.inAliasNoted {
		return
	}
	e.inAliasNoted = true
	defer func() { e.inAliasNoted = false }()
	n := len(e.ssubReg)
	for i := 0; i < n; i++ {
		b := e.ssubReg[i]
		if b.s == x && b.name != sub {
			e.ssubChainWith(b, 1, sub)
		}
	}
}

func (e *Exec) ssubChainWith(b ssubEntry, depth int, only string) {
	if depth > 3 || len(e.ssubReg) > 64 {
		return
	}
	zero := bvLitI(64, 0)
	for _, o := range e.ssubReg {
		if o.name == b.name || (only != "" && o.name != only) {
			continue
		}
		g := mkAnd(b.guard, o.guard, mkEq(b.s, o.name), app("bvsle", zero, b.lo), app("bvsle", b.lo, b.hi), app("bvsle", b.hi, bvSub(o.hi, o.lo)), app("bvsle", zero, o.lo), app("bvsle", o.lo, o.hi))
		if b.s != o.name && !e.aliasHint[b.s][o.name] {
			continue // only names that are syntactically the same or were equated by an assumption
		}
		d := ssubEntry{s: o.s, lo: bvAdd(o.lo, b.lo), hi: bvAdd(o.lo, b.hi), name: b.name, guard: g}
		e.assume(mkImp(g, mkEq(b.name, app("ssub", d.s, d.lo, d.hi))))
		e.ssubChars(b.name, d.s, d.lo, d.hi, g)
		e.ssubChain(d, depth+1)
	}
}

// ssubChars: the characters of a short substring (literal length up to 8), stated outright.
func (e *Exec) ssubChars(name, s, lo, hi, guard string) {
	d := bvSub(hi, lo)
	lv, _, ok := litVal(d)
	if !ok || !lv.IsInt64() || lv.Int64() > 8 {
		return
	}
	for k := int64(0); k < lv.Int64(); k++ {
		e.assume(mkImp(guard, mkEq(app("sat", name, bvLitI(64, k)), app("sat", s, bvAdd(lo, bvLitI(64, k))))))
	}
}

func (e *Exec) ssubLemma(f sfromEntry, b ssubEntry) {
	zero := bvLitI(64, 0)
	e.assume(mkImp(mkAnd(mkEq(b.s, f.name), app("bvsle", zero, b.lo), app("bvsle", b.lo, b.hi), app("bvsle", b.hi, f.ln)),
		mkEq(b.name, app("sfrom", f.arr, bvAdd(f.off, b.lo), bvSub(b.hi, b.lo)))))
}

func (e *Exec) needSsub() {
	e.once("ssub", func() {
		e.emit("(declare-fun ssub (Str (_ BitVec 64) (_ BitVec 64)) Str)")
		e.emit("(assert (forall ((s Str) (a (_ BitVec 64)) (b (_ BitVec 64)) (i (_ BitVec 64))) (! (=> (and (bvsle #x0000000000000000 i) (bvslt i (bvsub b a))) (= (sat (ssub s a b) i) (sat s (bvadd a i)))) :pattern ((sat (ssub s a b) i)))))")
	})
}

// needSfrom declares sfrom(a, o, l): the string of the l bytes of a from o.
func (e *Exec) needSfrom() {
	e.once("sfrom", func() {
		e.emit("(declare-fun sfrom ((Array (_ BitVec 64) (_ BitVec 8)) (_ BitVec 64) (_ BitVec 64)) Str)")
		e.emit("(assert (forall ((a (Array (_ BitVec 64) (_ BitVec 8))) (o (_ BitVec 64)) (l (_ BitVec 64)) (i (_ BitVec 64))) (! (= (sat (sfrom a o l) i) (select a (bvadd o i))) :pattern ((sat (sfrom a o l) i)))))")
	})
}

// strOfBytes: the string holding the current contents of a []byte value.
func (e *Exec) strOfBytes(st *State, v Val, pc string) string {
	e.needSfrom()
	srt := arrSort(sRef, arrSort(sBV64, bvSort(8)))
	arr := e.heapGet(st, elemKey(tByte, 0), srt)
	sft := app("sfrom", sel(arr, v.sBase()), v.sOff(), v.sLen())
	if e.ssubCache == nil {
		e.ssubCache = map[string]string{}
	}
	if n, ok := e.ssubCache[sft]; ok {
		e.assume(mkImp(mkAnd(pc, app("bvsle", bvLitI(64, 0), v.sLen())), mkEq(app("slen", n), v.sLen())))
		return n
	}
	n := e.fresh("str_of", sStr)
	e.ssubCache[sft] = n
	e.assume(mkEq(n, sft))
	if lv, _, ok := litVal(v.sLen()); ok && lv.IsInt64() && lv.Int64() <= 8 {
		// short strings: their characters, stated outright (the quantified character axiom needs a
		// trigger term that is often absent)
		for k := int64(0); k < lv.Int64(); k++ {
			e.assume(mkEq(app("sat", n, bvLitI(64, k)), sel(sel(arr, v.sBase()), bvAdd(v.sOff(), bvLitI(64, k)))))
		}
	}
	ent := sfromEntry{base: v.sBase(), off: v.sOff(), ln: v.sLen(), name: n, arr: sel(arr, v.sBase())}
	e.sfromReg = append(e.sfromReg, ent)
	if len(e.sfromReg) <= 24 {
		for _, b := range e.ssubReg {
			e.ssubLemma(ent, b)
		}
	}
	e.assume(mkImp(mkAnd(pc, app("bvsle", bvLitI(64, 0), v.sLen())), mkEq(app("slen", n), v.sLen())))
	e.strInv(n, pc)
	return n
}

func (fr *Frame) execTypeAssert(x *ssa.TypeAssert) {
	e := fr.e
	v := fr.val(x.X)
	T := x.AssertedType
	var ok string
	var res Val
	if _, isIface := T.Underlying().(*types.Interface); isIface {
		// interface-to-interface: succeeds iff dynamic type implements T
		switch {
		case v.Dyn != nil:
			if types.Implements(v.Dyn, T.Underlying().(*types.Interface)) {
				ok = "true"
			} else {
				ok = "false"
			}
		default:
			name := sym("implements_" + typeKey(T))
			e.once("impl:"+name, func() { e.emit("(declare-fun " + name + " (Int) Bool)"); e.assume(mkNot(app(name, "0"))) })
			ok = app(name, app("itype", v.S))
		}
		res = Val{T: T, S: v.S, Dyn: v.Dyn, DynV: v.DynV}
	} else {
		if v.Dyn != nil {
			if types.Identical(v.Dyn, T) {
				ok = "true"
			} else {
				ok = "false"
			}
		} else {
			ok = mkEq(app("itype", v.S), e.typeTag(T))
		}
		res = e.unbox(v, T)
		res.T = T
	}
	if x.CommaOk {
		tv := Val{T: x.Type()}
		// failed assertion yields the zero value
		z := zeroVal(T)
		var terms []string
		rl, zl := res.leaves(), z.leaves()
		for i := range rl {
			terms = append(terms, mkIte(ok, rl[i], zl[i]))
		}
		r2 := unflatten(T, &terms)
		r2.Dyn, r2.DynV = res.Dyn, res.DynV
		// A2: a pointer obtained from a successful comma-ok assertion is taken to be non-nil
		// (interfaces are assumed not to hold typed nil pointers)
		if _, isPtr := T.Underlying().(*types.Pointer); isPtr {
			r2.NN = true
		}
		if ok == "true" {
			r2.NN = res.NN || r2.NN
		}
		tv.F = []Val{r2, {T: tBool, S: ok}}
		fr.vals[x] = tv
		return
	}
	if e.enabled("assert") {
		e.oblige("assert", fr.anchor(x), fr.pc, ok, e.posOf(x.Pos()), "type assertion may fail: "+shortTypeKey(T))
	} else {
		e.assume(mkImp(fr.pc, ok))
	}
	res.NN = true
	fr.set(x, res)
}

func (e *Exec) mapSorts(T types.Type) (ks string, okKey bool) {
	m := T.Underlying().(*types.Map)
	l := leafSorts(m.Key())
	if len(l) != 1 {
		return "", false
	}
	return l[0], true
}

func (e *Exec) initMap(st *State, r string, T types.Type) {
	ks, ok := e.mapSorts(T)
	if !ok {
		e.flag("map-composite-key")
		return
	}
	key := "M:" + typeKey(T) + ".present"
	srt := arrSort(sRef, arrSort(ks, sBool))
	arr := e.heapGet(st, key, srt)
	e.heapSet(st, key, srt, sto(arr, r, constArr(arrSort(ks, sBool), "false")))
}

func (fr *Frame) execLookup(x *ssa.Lookup) {
	e := fr.e
	c := fr.val(x.X)
	if _, isMap := x.X.Type().Underlying().(*types.Map); !isMap {
		// string index
		idx := e.toBV64(fr.val(x.Index))
		e.check("bounds", fr.anchor(x), fr.pc, mkAnd(app("bvsle", bvLitI(64, 0), idx), app("bvslt", idx, app("slen", c.S))), e.posOf(x.Pos()), "string index")
		fr.set(x, Val{S: app("sat", c.S, idx)})
		return
	}
	MT := x.X.Type()
	m := MT.Underlying().(*types.Map)
	ks, ok := e.mapSorts(MT)
	if !ok {
		e.flag("map-composite-key")
		fr.vals[x] = e.freshVal(x.Type(), "lookup", fr.pc)
		return
	}
	k := fr.val(x.Index)
	kterm := k.leaves()[0]
	pres := sel(sel(e.heapGet(fr.st, "M:"+typeKey(MT)+".present", arrSort(sRef, arrSort(ks, sBool))), c.S), kterm)
	pres = mkAnd(mkNot(mkEq(c.S, "0")), pres)
	var terms []string
	z := zeroVal(m.Elem()).leaves()
	for i, s := range leafSorts(m.Elem()) {
		arr := e.heapGet(fr.st, fmt.Sprintf("M:%s.val#%d", typeKey(MT), i), arrSort(sRef, arrSort(ks, s)))
		terms = append(terms, mkIte(pres, sel(sel(arr, c.S), kterm), z[i]))
	}
	v := unflatten(m.Elem(), &terms)
	e.assumeTypeInv(v, fr.pc)
	if x.CommaOk {
		tv := Val{T: x.Type(), F: []Val{v, {T: tBool, S: pres}}}
		fr.vals[x] = tv
		return
	}
	fr.set(x, v)
}

func (fr *Frame) execMapUpdate(x *ssa.MapUpdate) {
	e := fr.e
	c := fr.val(x.Map)
	MT := x.Map.Type()
	m := MT.Underlying().(*types.Map)
	if e.enabled("mapnil") && !c.NN {
		e.oblige("mapnil", fr.anchor(x), fr.pc, mkNot(mkEq(c.S, "0")), e.posOf(x.Pos()), "assignment to entry in nil map")
	} else {
		// not obliged here (kind disabled, or the map is non-nil by assumption A2): a write to a nil map panics, so
		// execution continues only with a map — made explicit for the clauses that mention haskey
		e.assume(mkImp(fr.pc, mkNot(mkEq(c.S, "0"))))
	}
	ks, ok := e.mapSorts(MT)
	if !ok {
		e.flag("map-composite-key")
		return
	}
	k := fr.val(x.Key).leaves()[0]
	pk := "M:" + typeKey(MT) + ".present"
	psrt := arrSort(sRef, arrSort(ks, sBool))
	parr := e.heapGet(fr.st, pk, psrt)
	e.heapSet(fr.st, pk, psrt, sto(parr, c.S, sto(sel(parr, c.S), k, "true")))
	vl := fr.val(x.Value).leaves()
	for i, s := range leafSorts(m.Elem()) {
		key := fmt.Sprintf("M:%s.val#%d", typeKey(MT), i)
		srt := arrSort(sRef, arrSort(ks, s))
		arr := e.heapGet(fr.st, key, srt)
		e.heapSet(fr.st, key, srt, sto(arr, c.S, sto(sel(arr, c.S), k, vl[i])))
	}
}

func (fr *Frame) runDefers() {
	for i := len(fr.defers) - 1; i >= 0; i-- {
		d := fr.defers[i]
		if !blockReaches(d.block, fr.cur) {
			continue
		}
		guard := "true"
		if !d.block.Dominates(fr.cur) {
			guard = fr.reach[d.block]
		}
		if guard == "true" {
			fr.doCall(d.instr, d.instr.Common(), d.fnVal, d.args, nil)
			continue
		}
		// guarded execution: run on a copy under pc ∧ guard, then merge
		savedPC := fr.pc
		before := fr.st.clone()
		fr.pc = mkAnd(savedPC, guard)
		fr.e.pcNow = fr.pc
		fr.doCall(d.instr, d.instr.Common(), d.fnVal, d.args, nil)
		after := fr.st
		fr.pc = savedPC
		fr.e.pcNow = savedPC
		fr.st = fr.e.mergeStates([]string{mkAnd(savedPC, guard), mkAnd(savedPC, mkNot(guard))}, []*State{after, before})
	}
}

func blockReaches(a, b *ssa.BasicBlock) bool {
	if a == b {
		return true
	}
	seen := map[*ssa.BasicBlock]bool{}
	stack := []*ssa.BasicBlock{a}
	for len(stack) > 0 {
		n := stack[len(stack)-1]
		stack = stack[:len(stack)-1]
		if n == b {
			return true
		}
		if seen[n] {
			continue
		}
		seen[n] = true
		stack = append(stack, n.Succs...)
	}
	return false
}

// checkGo: the call-site conditions of the function under verification hold for calls started as
// goroutines too (the arguments are evaluated at the go statement). The goroutine itself is not executed.
func (fr *Frame) checkGo(x *ssa.Go) {
	e := fr.e
	// built-in ghost gostarts: the number of go statements executed by the function under contract itself
	// (and the code inlined into it); calls with unknown effects do not change it
	if _, ok := e.L.specs.GhostVars["gostarts"]; ok {
		srt := sBV64
		e.keySort["X:gostarts"] = srt
		cur := e.heapGet(fr.st, "X:gostarts", srt)
		e.heapSet(fr.st, "X:gostarts", srt, mkIte(fr.pc, bvAdd(cur, bvLitI(64, 1)), cur))
	}
	if e.spec == nil || len(e.spec.CallPre) == 0 {
		return
	}
	cc := x.Common()
	callee := cc.StaticCallee()
	if callee == nil {
		return
	}
	var args []Val
	for _, a := range cc.Args {
		args = append(args, fr.val(a))
	}
	fr.checkCallPre(x, callee, e.L.specFor(callee), args, nil, e.L.funcKey(callee))
}

var _ = strings.TrimSpace

// assumeRefsOld: every reference held in a value just read from memory denotes an object that
// already exists (ref <= allocation counter), hence differs from anything allocated later.
func (e *Exec) assumeRefsOld(v Val, pc, alloc string) {
	switch u := v.T.Underlying().(type) {
	case *types.Pointer, *types.Map, *types.Chan, *types.Signature:
		if v.S != "" && v.A == nil {
			e.assume(mkImp(pc, app("<=", v.S, alloc)))
		}
	case *types.Slice:
		if len(v.F) == 4 {
			e.assume(mkImp(pc, app("<=", v.sBase(), alloc)))
		}
	case *types.Interface:
		if v.S != "" && v.Dyn == nil {
			e.assume(mkImp(pc, app("<=", app("iref", v.S), alloc)))
		}
	case *types.Struct:
		for i := range v.F {
			if i < u.NumFields() {
				f := v.F[i]
				f.T = u.Field(i).Type()
				e.assumeRefsOld(f, pc, alloc)
			}
		}
	}
}

// zeroGhosts: ghost fields declared for the type of a freshly allocated object start at their
// zero value (a new strings.Builder is empty, a new counter is 0).
func (e *Exec) zeroGhosts(fr *Frame, ref string, T types.Type) {
	n, ok := T.(*types.Named)
	if !ok {
		return
	}
	for name, g := range e.L.specs.Ghosts {
		if g.Owner != n.Obj().Name() || strings.Contains(g.Type, "->") {
			continue
		}
		GT, err := e.L.resolveType(fr.fn.Pkg.Pkg, g.Type)
		if err != nil || kindOf(GT) != kScalar {
			continue
		}
		key := "X:" + name
		srt := arrSort(sRef, scalarSort(GT))
		arr := e.heapGet(fr.st, key, srt)
		e.heapSet(fr.st, key, srt, sto(arr, ref, zeroScalar(GT)))
	}
}

func rangeKey(r *ssa.Range) string {
	return fmt.Sprintf("R:%s:%s", r.Parent().Name(), r.Name())
}

// chanSend: a channel send under condition pc. The ghost counter chansends counts the sends of the
// function's execution; the contract's onsend clauses are obligations over the channel (ch) and the
// value sent (val: the value before it was boxed into an interface, when the send site boxes it).
func (fr *Frame) chanSend(in ssa.Instruction, ch, x ssa.Value, pc string) {
	e := fr.e
	if _, ok := e.L.specs.GhostVars["chansends"]; ok {
		srt := sBV64
		e.keySort["X:chansends"] = srt
		cur := e.heapGet(fr.st, "X:chansends", srt)
		e.heapSet(fr.st, "X:chansends", srt, mkIte(pc, bvAdd(cur, bvLitI(64, 1)), cur))
	}
	if fr.depth != 0 || e.spec == nil || (len(e.spec.OnSend) == 0 && len(e.spec.OnSendAdd) == 0) {
		return
	}
	defer func() {
		// after the clauses of this send: the allocation bound becomes the "previous send" mark
		e.keySort["X:lastsendalloc"] = sRef
		cur := e.heapGet(fr.st, "X:lastsendalloc", sRef)
		e.heapSet(fr.st, "X:lastsendalloc", sRef, mkIte(pc, fr.st.alloc, cur))
	}()
	val := fr.val(x)
	val.T = x.Type()
	if mi, ok := x.(*ssa.MakeInterface); ok {
		val = fr.val(mi.X)
		val.T = mi.X.Type()
	}
	chv := fr.val(ch)
	chv.T = ch.Type()
	env := e.baseEnv(fr, fr.st)
	env.old = e.entry
	for k, v := range e.params {
		if _, clash := env.vars[k]; !clash {
			env.vars[k] = v
		}
	}
	env.vars["ch"] = chv
	env.vars["val"] = val
	save := e.pcNow
	e.pcNow = pc
	for i, c := range e.spec.OnSend {
		t, err := env.evalBool(c.E)
		if err != nil {
			e.errs = append(e.errs, fmt.Sprintf("%s: %v", c.Line, err))
			continue
		}
		lbl := c.Label
		if lbl == "" {
			lbl = fmt.Sprint(i + 1)
		}
		e.oblige("onsend", fr.prefix+lbl, pc, t, e.posOf(in.Pos()), "condition on every channel send: "+c.Src)
	}
	var gnames []string
	for g := range e.spec.OnSendAdd {
		gnames = append(gnames, g)
	}
	sort.Strings(gnames)
	for _, g := range gnames {
		c := e.spec.OnSendAdd[g]
		v, err := env.eval(c.E)
		if err != nil {
			e.errs = append(e.errs, fmt.Sprintf("%s: %v", c.Line, err))
			continue
		}
		if _, err := env.evalIdent(g); err != nil { // registers the ghost variable's sort
			e.errs = append(e.errs, fmt.Sprintf("%s: %v", c.Line, err))
			continue
		}
		srt := e.keySort["X:"+g]
		cur := e.heapGet(fr.st, "X:"+g, srt)
		e.heapSet(fr.st, "X:"+g, srt, mkIte(pc, bvAdd(cur, e.toBV64(v)), cur))
	}
	e.pcNow = save
}
