#!/bin/bash
# usage: scratch.sh '<sed expr>' <file-rel> -- <govc verify args>
# makes a scratch copy of /repo, applies the sed expression to one file, runs govc on it, removes the copy.
set -e
D=$(mktemp -d /tmp/scratch.XXXXXX)
trap 'rm -rf "$D"' EXIT
cp -r /repo/. "$D/"
sed -i "$1" "$D/$2"
shift 2; [ "$1" = "--" ] && shift
(cd "$D" && git diff --stat | tail -1)
/verif/bin/govc verify -repo "$D" "$@"
