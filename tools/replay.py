import json,sys,os,tempfile,subprocess,shutil
d=json.load(open(sys.argv[1]))
src=d.get('replay_test_source')
print("obligation:",d['obligation']); print("description:",d.get('description'))
if not src:
    print("no executable replay stored; solver output:\n",d.get('solver_output','')); sys.exit(0)
fn=d['position'].split(':')[0]
pkgdir=os.path.join('/repo',os.path.dirname(fn))
w=tempfile.mkdtemp(prefix='govc-replay')
try:
    t=os.path.join(w,'t_test.go'); open(t,'w').write(src)
    ov=os.path.join(w,'ov.json'); json.dump({"Replace":{os.path.join(pkgdir,'zz_govc_replay_test.go'):t}},open(ov,'w'))
    tmp=os.path.join(w,'tmp'); os.mkdir(tmp)
    env=dict(os.environ,TMPDIR=tmp)
    r=subprocess.run(['go','test','-tags','verif','-overlay',ov,'-vet=off','-count=1','-v','-timeout','60s','-run','^TestGovcReplay$','.'],cwd=pkgdir,env=env,capture_output=True,text=True,timeout=200)
    print(r.stdout[-4000:]); print(r.stderr[-2000:])
finally:
    shutil.rmtree(w,ignore_errors=True)
