package main

import (
	"bytes"
	"context"
	"encoding/json"
	"fmt"
	"go/types"
	"math/big"
	"os"
	"os/exec"
	"path/filepath"
	"sort"
	"strings"
	"time"

	"golang.org/x/tools/go/ssa"
)

// ---- counterexample -> executable replay on the real code ----

type ReplayFile struct {
	Property   string            `json:"property"`
	Obligation string            `json:"obligation"`
	Kind       string            `json:"kind"`
	Function   string            `json:"function"`
	Position   string            `json:"position"`
	Desc       string            `json:"description"`
	Verdict    string            `json:"solver_verdict"`
	Solver     string            `json:"solver"`
	SolverOut  string            `json:"solver_output"`
	Model      map[string]string `json:"model,omitempty"`
	TestSource string            `json:"replay_test_source,omitempty"`
	ReplayCmd  string            `json:"replay_cmd,omitempty"`
	ReplayOut  string            `json:"replay_output,omitempty"`
	Outcome    string            `json:"outcome"` // reproduced | not-reproduced | no-model | not-replayable
	Note       string            `json:"note,omitempty"`
}

func bvToBig(v string) (*big.Int, bool) {
	v = strings.TrimSpace(v)
	switch {
	case strings.HasPrefix(v, "#x"):
		b, ok := new(big.Int).SetString(v[2:], 16)
		return b, ok
	case strings.HasPrefix(v, "#b"):
		b, ok := new(big.Int).SetString(v[2:], 2)
		return b, ok
	case strings.HasPrefix(v, "(- "):
		b, ok := new(big.Int).SetString(strings.TrimSuffix(v[3:], ")"), 10)
		if ok {
			b.Neg(b)
		}
		return b, ok
	case strings.HasPrefix(v, "(_ bv"):
		f := strings.Fields(v[5:])
		b, ok := new(big.Int).SetString(f[0], 10)
		return b, ok
	}
	b, ok := new(big.Int).SetString(v, 10)
	return b, ok
}

func signedVal(b *big.Int, w int) *big.Int {
	half := new(big.Int).Lsh(big.NewInt(1), uint(w-1))
	if b.Cmp(half) >= 0 {
		return new(big.Int).Sub(b, new(big.Int).Lsh(big.NewInt(1), uint(w)))
	}
	return b
}

type replayGen struct {
	L       *Loader
	m       map[string]string
	pkg     *types.Package
	ok      bool
	notes   []string
	imports map[string]bool
}

func (g *replayGen) qual(p *types.Package) string {
	if p == g.pkg {
		return ""
	}
	g.imports[p.Path()] = true
	return p.Name()
}

func (g *replayGen) typeStr(T types.Type) string {
	return types.TypeString(T, g.qual)
}

func (g *replayGen) intLit(name string, T types.Type) string {
	w, signed, _ := intInfo(T)
	v, ok := g.m[name]
	if !ok {
		return g.typeStr(T) + "(0)"
	}
	b, ok := bvToBig(v)
	if !ok {
		return g.typeStr(T) + "(0)"
	}
	if signed {
		b = signedVal(b, w)
	}
	return fmt.Sprintf("%s(%s)", g.typeStr(T), b.String())
}

func (g *replayGen) num(name string) (int64, bool) {
	v, ok := g.m[name]
	if !ok {
		return 0, false
	}
	b, ok := bvToBig(v)
	if !ok {
		return 0, false
	}
	return signedVal(b, 64).Int64(), true
}

// expr builds a Go expression for the model value of the input named name with type T.
func (g *replayGen) expr(name string, T types.Type, depth int) string {
	switch u := T.Underlying().(type) {
	case *types.Basic:
		switch {
		case u.Info()&types.IsInteger != 0:
			return g.intLit(name, T)
		case u.Info()&types.IsBoolean != 0:
			if g.m[name] == "true" {
				return "true"
			}
			return "false"
		case u.Info()&types.IsString != 0:
			n, ok := g.num(name + ".slen")
			if !ok || n < 0 || n > 16 {
				if n > 16 {
					g.notes = append(g.notes, name+": string longer than 16 bytes truncated")
					n = 16
				} else {
					n = 0
				}
			}
			var bs []string
			for i := int64(0); i < n; i++ {
				c, _ := g.num(fmt.Sprintf("%s[%d]", name, i))
				bs = append(bs, fmt.Sprintf("%d", c&0xff))
			}
			return g.typeStr(T) + "([]byte{" + strings.Join(bs, ",") + "})"
		}
	case *types.Slice:
		base, _ := g.num(name + ".base")
		n, ok := g.num(name + ".len")
		if !ok {
			return "nil"
		}
		if (base == 0 && n == 0) || n < 0 {
			return "nil"
		}
		if n > replayBytes {
			g.ok = false
			g.notes = append(g.notes, fmt.Sprintf("%s: length %d too large to materialise", name, n))
			return "nil"
		}
		if _, _, isInt := intInfo(u.Elem()); !isInt {
			if n == 0 {
				return "nil"
			}
			g.notes = append(g.notes, name+": non-integer elements left zero")
			return fmt.Sprintf("make(%s, %d)", g.typeStr(T), n)
		}
		var bs []string
		for i := int64(0); i < n; i++ {
			bs = append(bs, g.intLit(fmt.Sprintf("%s[%d]", name, i), u.Elem()))
		}
		c, _ := g.num(name + ".cap")
		if c > n && c-n <= 64 {
			return fmt.Sprintf("append(make(%s, 0, %d), %s{%s}...)", g.typeStr(T), c, g.typeStr(T), strings.Join(bs, ","))
		}
		return g.typeStr(T) + "{" + strings.Join(bs, ",") + "}"
	case *types.Pointer:
		if depth >= 2 {
			return "nil"
		}
		if st, ok := u.Elem().Underlying().(*types.Struct); ok {
			var fs []string
			for i := 0; i < st.NumFields(); i++ {
				f := st.Field(i)
				if f.Pkg() != g.pkg && !f.Exported() {
					continue
				}
				if isAggregate(f.Type()) {
					continue
				}
				switch f.Type().Underlying().(type) {
				case *types.Basic, *types.Slice:
					fs = append(fs, f.Name()+": "+g.expr(name+"->"+f.Name(), f.Type(), depth+1))
				case *types.Interface:
					if v, ok := g.m[name+"->"+f.Name()+".itype"]; ok && v != "0" && types.Identical(f.Type(), types.Universe.Lookup("error").Type()) {
						g.imports["errors"] = true
						fs = append(fs, f.Name()+`: errors.New("replay")`)
					}
				}
			}
			return "&" + g.typeStr(u.Elem()) + "{" + strings.Join(fs, ", ") + "}"
		}
		return "new(" + g.typeStr(u.Elem()) + ")"
	case *types.Struct:
		return g.typeStr(T) + "{}"
	}
	g.notes = append(g.notes, name+": type "+T.String()+" not materialised (zero value)")
	return "*new(" + g.typeStr(T) + ")"
}

// buildReplay makes the in-package test source for a failed obligation.
func (L *Loader) buildReplay(fn *ssa.Function, o *Obligation) (src string, ok bool, notes []string) {
	if fn.Pkg == nil || len(fn.FreeVars) > 0 {
		return "", false, []string{"closures are not replayed"}
	}
	g := &replayGen{L: L, m: o.Model, pkg: fn.Pkg.Pkg, ok: true, imports: map[string]bool{"fmt": true, "testing": true}}
	var decl []string
	var argNames []string
	for i, p := range fn.Params {
		an := fmt.Sprintf("a%d", i)
		decl = append(decl, fmt.Sprintf("\t%s := %s", an, g.expr(p.Name(), p.Type(), 0)))
		argNames = append(argNames, an)
	}
	var call string
	sig := fn.Signature
	if sig.Recv() != nil {
		call = fmt.Sprintf("%s.%s(%s)", argNames[0], fn.Name(), strings.Join(argNames[1:], ", "))
	} else {
		call = fmt.Sprintf("%s(%s)", fn.Name(), strings.Join(argNames, ", "))
	}
	if sig.Variadic() {
		call = call[:len(call)-1] + "...)"
	}
	var res []string
	for i := 0; i < sig.Results().Len(); i++ {
		res = append(res, fmt.Sprintf("r%d", i))
	}
	var b bytes.Buffer
	b.WriteString("package " + fn.Pkg.Pkg.Name() + "\n\nimport (\n")
	var imps []string
	for p := range g.imports {
		imps = append(imps, p)
	}
	sort.Strings(imps)
	for _, p := range imps {
		fmt.Fprintf(&b, "\t%q\n", p)
	}
	b.WriteString(")\n\nfunc TestGovcReplay(t *testing.T) {\n")
	b.WriteString("\tdefer func() {\n\t\tif r := recover(); r != nil {\n\t\t\tfmt.Println(\"GOVC-REPLAY-PANIC:\", r)\n\t\t}\n\t}()\n")
	for _, d := range decl {
		b.WriteString(d + "\n")
	}
	if len(res) > 0 {
		fmt.Fprintf(&b, "\t%s := %s\n", strings.Join(res, ", "), call)
		for _, r := range res {
			fmt.Fprintf(&b, "\tfmt.Printf(\"GOVC-REPLAY-RESULT %s=%%#v\\n\", %s)\n", r, r)
		}
	} else {
		fmt.Fprintf(&b, "\t%s\n", call)
	}
	for i, an := range argNames {
		if _, isPtr := fn.Params[i].Type().Underlying().(*types.Pointer); isPtr {
			fmt.Fprintf(&b, "\tfmt.Printf(\"GOVC-REPLAY-STATE %s=%%+v\\n\", *%s)\n", fn.Params[i].Name(), an)
		}
	}
	b.WriteString("\tfmt.Println(\"GOVC-REPLAY-RETURNED\")\n}\n")
	return b.String(), g.ok, g.notes
}

// runReplay executes the generated test against the real package through an overlay.
func (L *Loader) runReplay(fn *ssa.Function, src string) (out string, cmdline string) {
	dir := filepath.Dir(L.fset.Position(fn.Pos()).Filename)
	work, err := os.MkdirTemp("", "govc-replay")
	if err != nil {
		return err.Error(), ""
	}
	defer os.RemoveAll(work)
	testFile := filepath.Join(work, "govc_replay_test.go")
	os.WriteFile(testFile, []byte(src), 0o644)
	ov := map[string]map[string]string{"Replace": {filepath.Join(dir, "zz_govc_replay_test.go"): testFile}}
	ovb, _ := json.Marshal(ov)
	ovFile := filepath.Join(work, "overlay.json")
	os.WriteFile(ovFile, ovb, 0o644)
	tmp := filepath.Join(work, "tmp")
	os.MkdirAll(tmp, 0o755)
	ctx, cancel := context.WithTimeout(context.Background(), 150*time.Second)
	defer cancel()
	args := []string{"test", "-tags", "verif", "-overlay", ovFile, "-vet=off", "-count=1", "-v", "-timeout", "60s", "-run", "^TestGovcReplay$", "."}
	cmd := exec.CommandContext(ctx, "go", args...)
	cmd.Dir = dir
	cmd.Env = append(os.Environ(), "GOFLAGS=-mod=mod", "GOPROXY=off", "GOSUMDB=off", "GOTOOLCHAIN=local", "TMPDIR="+tmp)
	var buf bytes.Buffer
	cmd.Stdout = &buf
	cmd.Stderr = &buf
	cmd.Run()
	o := buf.String()
	if len(o) > 6000 {
		o = o[:6000] + "\n...[truncated]"
	}
	return o, "cd " + dir + " && go " + strings.Join(args, " ")
}

var safetyKinds = map[string]bool{"bounds": true, "nil": true, "assert": true, "div0": true, "shift": true, "makelen": true, "panic": true, "mapnil": true}

// shrinkAndModel re-solves a failed obligation with small-input constraints so the model can be built.
func shrinkAndModel(o *Obligation, opt *solveOpts) {
	if o.Verdict != "sat" && o.Verdict != "sat-relaxed" {
		return
	}
	best := parseGetValue(o.Raw, o.Inputs)
	for _, bound := range []int64{4, 8, 24, replayBytes} {
		var extra []string
		for _, in := range o.Inputs {
			if strings.HasSuffix(in.Name, ".len") {
				extra = append(extra, app("bvsle", in.Term, bvLitI(64, bound)))
			}
			if strings.HasSuffix(in.Name, ".slen") {
				extra = append(extra, app("bvsle", in.Term, bvLitI(64, 16)))
			}
			if strings.HasSuffix(in.Name, ".cap") {
				lenTerm := ""
				for _, j := range o.Inputs {
					if j.Name == strings.TrimSuffix(in.Name, ".cap")+".len" {
						lenTerm = j.Term
					}
				}
				if lenTerm != "" {
					extra = append(extra, app("bvsle", in.Term, bvAdd(lenTerm, bvLitI(64, 16))))
				}
			}
		}
		if len(extra) == 0 {
			break
		}
		o2 := *o
		o2.Goal = mkOr(o.Goal, mkNot(mkAnd(extra...))) // ¬goal ∧ extra
		o2.Verdict = ""
		o2.ID = o.ID + "/shrink"
		discharge(&o2, opt, 9000)
		if o2.Verdict == "sat" || o2.Verdict == "sat-relaxed" {
			best = parseGetValue(o2.Raw, o.Inputs)
			o.Raw = o2.Raw
			break
		}
	}
	o.Model = best
}
