package main

import (
	"fmt"
	"path/filepath"
	"strings"
)

// Bounded validation of the assumed contracts of path/filepath (contracts/assumed/stdlib.spec, axioms
// A1..A5 of property C11) against the real library: every path over the component alphabet
// {a, b, .., ., ""} with up to n components, absolute and relative. This is a BOUNDED check of the
// assumptions, not a proof; it is reported as such.
func pathUniverse(n int) []string {
	comps := []string{"a", "b", "..", ".", ""}
	var out []string
	seen := map[string]bool{}
	add := func(s string) {
		if !seen[s] {
			seen[s] = true
			out = append(out, s)
		}
	}
	add("")
	add("/")
	var rec func(prefix []string, depth int)
	rec = func(prefix []string, depth int) {
		if len(prefix) > 0 {
			p := strings.Join(prefix, "/")
			add(p)
			add("/" + p)
		}
		if depth == n {
			return
		}
		for _, c := range comps {
			rec(append(append([]string{}, prefix...), c), depth+1)
		}
	}
	rec(nil, 0)
	return out
}

func pRooted(p string) bool { return strings.HasPrefix(p, "/") }
func pClean(p string) bool  { return filepath.Clean(p) == p }
func pUnder(r, x string) bool {
	rel, err := filepath.Rel(r, x)
	return err == nil && rel != ".." && !strings.HasPrefix(rel, "../")
}

// validatePathAxioms returns the number of instances checked and the first few refutations.
func validatePathAxioms(n int) (checked int64, bad []string) {
	U := pathUniverse(n)
	fail := func(ax string, args ...string) {
		if len(bad) < 5 {
			bad = append(bad, fmt.Sprintf("%s refuted for %q", ax, args))
		}
	}
	if !(pRooted("/") && pClean("/")) {
		fail("axiom rooted(\"/\") && pclean(\"/\")")
	}
	var cleanU, rootedCleanU []string
	for _, p := range U {
		checked += 3
		if filepath.IsAbs(p) != pRooted(p) {
			fail("A1 IsAbs(p) == rooted(p)", p)
		}
		c := filepath.Clean(p)
		if !pClean(c) || (pRooted(p) && !pRooted(c)) {
			fail("A2 pclean(Clean(p)) && (rooted(p) ==> rooted(Clean(p)))", p)
		}
		if !pClean(filepath.Dir(p)) {
			fail("pclean(Dir(p))", p)
		}
		if pClean(p) {
			cleanU = append(cleanU, p)
			if pRooted(p) {
				rootedCleanU = append(rootedCleanU, p)
			}
		}
	}
	for _, a := range U {
		ra := pRooted(a) && pClean(a)
		for _, b := range U {
			checked++
			j := filepath.Join(a, b)
			if (a != "" || b != "") && !pClean(j) {
				fail("A3 (a != \"\" || b != \"\") ==> pclean(Join(a,b))", a, b)
			}
			if (ra || a == "/") && !(pRooted(j) && pClean(j)) {
				fail("A5 rooted(a) && pclean(a) ==> rooted(Join(a,b)) && pclean(Join(a,b))", a, b)
			}
		}
	}
	for _, r := range cleanU {
		for _, c := range rootedCleanU {
			checked++
			if !pUnder(r, filepath.Join(r, c)) {
				fail("A4 pclean(r) && rooted(c) && pclean(c) ==> under(r, Join(r,c))", r, c)
			}
		}
	}
	// three-element Join over the smaller universe
	m := n
	if m > 2 {
		m = 2
	}
	S := pathUniverse(m)
	for _, a := range S {
		for _, b := range S {
			if b == "" {
				continue
			}
			for _, c := range S {
				checked++
				if !pClean(filepath.Join(a, b, c)) {
					fail("A3 b != \"\" ==> pclean(Join(a,b,c))", a, b, c)
				}
			}
		}
	}
	return
}
