#!/bin/bash
# usage: seedtest.sh <PROP> <worktree> <name>
# 1. confirms the seeded change in a scratch copy: builds, demo fails with it and passes without it
# 2. stores it as /verif/seeded/<PROP>-<name>/ (patch.diff, demo_test.go, meta.json)
# 3. applies the patch to /repo, runs the check of <PROP> (no evidence written), undoes the patch
set -u
export GOFLAGS=-mod=mod GOPROXY=off GOSUMDB=off GOTOOLCHAIN=local
P=$1; WT=$2; NAME=$3
DEST=/verif/seeded/$P-$NAME
mkdir -p $DEST
cp $WT/SEED/patch.diff $WT/SEED/demo_test.go $WT/SEED/meta.json $DEST/ 2>/dev/null
DEMODIR=$(python3 -c "import json;print(json.load(open('$DEST/meta.json'))['demo_dir'])" | sed "s|^$WT/||; s|^/tmp/wt_[A-Z0-9]*/||")
S=$(mktemp -d /tmp/seedchk.XXXX)
git -C /repo archive HEAD | tar -x -C $S
cp $DEST/demo_test.go $S/$DEMODIR/zz_seed_demo_test.go
RUNPAT=$(grep -o 'func Test[A-Za-z0-9_]*' $DEST/demo_test.go | sed 's/func //' | paste -sd'|')
echo "== demo on original (must pass)"
(cd $S/$DEMODIR && TMPDIR=$(mktemp -d) go test -vet=off -count=1 -timeout 120s -run "^($RUNPAT)\$" . 2>&1 | tail -3 | cut -c1-200)
echo "== apply patch, build, demo (must fail)"
(cd $S && git init -q . 2>/dev/null; patch -p1 -s < $DEST/patch.diff && go build ./... 2>&1 | tail -3)
(cd $S/$DEMODIR && TMPDIR=$(mktemp -d) go test -vet=off -count=1 -timeout 120s -run "^($RUNPAT)\$" . 2>&1 | tail -4 | cut -c1-200)
rm -rf $S
echo "== check $P on /repo with the patch applied (must report VIOLATION)"
git -C /repo apply $DEST/patch.diff && (cd /verif && ./bin/govc check -no-evidence -tier quick $P 2>&1 | cut -c1-220 | tail -6)
git -C /repo apply -R $DEST/patch.diff
git -C /repo status --short | head -3
