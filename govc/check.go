package main

import (
	"encoding/json"
	"flag"
	"fmt"
	"os"
	"path/filepath"
	"regexp"
	"sort"
	"strconv"
	"strings"
	"time"

	"golang.org/x/tools/go/ssa"
)

const verifDir = "/verif"

type PropConfig struct {
	ID            string         `json:"id"`
	Packages      []string       `json:"packages"`
	Functions     []string       `json:"functions"` // regexps over short function keys of contracts to verify
	Exclude       []string       `json:"exclude"`
	OtherProps    []string       `json:"other_properties_obligations"` // regexps on obligation IDs of a function shared between properties: reported by the other property's check, dropped here
	MinObls       int            `json:"min_obligations"`
	NotDecided    []string       `json:"not_decided"`
	Assumes       []string       `json:"assumptions"`
	Bounded       []string       `json:"bounded"`
	DesignRef     string         `json:"design_ref"`
	Lemmas        []string       `json:"lemmas"`
	JSONSweep     bool           `json:"jsonable_sweep"`
	Confine       *ConfineConfig `json:"confine"`
	GoSweep       *GoSweepConfig `json:"go_sweep"`
	Patient       []string       `json:"patient"`        // regexps on obligation IDs that need seconds on the unchanged tree: retried with nine times the time before they count as open
	ReceiverFrame []string       `json:"receiver_frame"` // regexps on short keys: handlers that must not write their (shared) receiver
	// accessors of keyed shared state (short key -> why): the rule does not look inside them, but each must be
	// verified in the same run against a contract with a frame check (its clauses say which entries it touches)
	ReceiverFrameAccessors map[string]string `json:"receiver_frame_accessors"`
	// regexps on short keys: handlers whose events must take their addresses from the handler's own connection
	EventAddress    []string       `json:"event_address"`
	SingleSender    []SingleSender `json:"single_sender"`
	UnbufferedChans []string       `json:"unbuffered_chans"` // regexps on short keys: functions whose channels must all be unbuffered
	SingleWriter    []SingleSender `json:"single_writer"`    // struct fields assigned (non-nil) in the listed functions only // channels (struct fields) that are sent on in the listed functions only
	PathAxioms      map[string]int `json:"path_axioms"`      // tier -> maximum number of path components
	// returns that are unreachable under the contracts' assumptions, each reviewed and explained; any
	// other unreachable return is reported as a vacuity violation
	ExpectedDead map[string]string `json:"expected_dead"`
}

type KnownFinding struct {
	Property   string `json:"property"`
	Status     string `json:"status"` // open | fixed
	Obligation string `json:"obligation"`
	Witness    string `json:"witness,omitempty"` // contract-language predicate over the function's entry state
	What       string `json:"what"`
	Commit     string `json:"commit,omitempty"`
}

type KnownFindings struct {
	Findings []KnownFinding `json:"findings"`
}

func loadKnown() *KnownFindings {
	kf := &KnownFindings{}
	b, err := os.ReadFile(filepath.Join(verifDir, "known_findings.json"))
	if err == nil {
		json.Unmarshal(b, kf)
	}
	return kf
}

func cmdCheck(args []string) {
	fs := flag.NewFlagSet("check", flag.ExitOnError)
	tier := fs.String("tier", os.Getenv("VERIF_TIER"), "quick|thorough")
	repo := fs.String("repo", "/repo", "repository root")
	noEvidence := fs.Bool("no-evidence", false, "do not write evidence (used by selftest on scratch copies)")
	verbose := fs.Bool("v", false, "print every obligation")
	fs.Parse(args)
	if fs.NArg() < 1 {
		fmt.Fprintln(os.Stderr, "usage: govc check [-tier quick|thorough] <ID>")
		os.Exit(2)
	}
	id := fs.Arg(0)
	if *tier == "" {
		*tier = "quick"
	}
	seed := 0
	if s := os.Getenv("VERIF_SEED"); s != "" {
		seed, _ = strconv.Atoi(s)
	}
	t0 := time.Now()
	cfgB, err := os.ReadFile(filepath.Join(verifDir, "props", id+".json"))
	if err != nil {
		fmt.Fprintln(os.Stderr, "no property config:", err)
		os.Exit(2)
	}
	var cfg PropConfig
	if err := json.Unmarshal(cfgB, &cfg); err != nil {
		fmt.Fprintln(os.Stderr, "bad property config:", err)
		os.Exit(2)
	}
	L, err := load(*repo, cfg.Packages)
	if err != nil {
		// the tree does not load (does not compile): engine error, not a verdict
		fmt.Fprintln(os.Stderr, "ENGINE-ERROR: cannot load packages:", err)
		os.Exit(2)
	}
	if err := L.loadSpecs(filepath.Join(verifDir, "contracts", "assumed")); err != nil {
		fmt.Fprintln(os.Stderr, "ENGINE-ERROR: contracts:", err)
		os.Exit(2)
	}
	var res []*regexp.Regexp
	for _, f := range cfg.Functions {
		res = append(res, regexp.MustCompile("^(?:"+f+")$"))
	}
	var exc []*regexp.Regexp
	for _, f := range cfg.Exclude {
		exc = append(exc, regexp.MustCompile("^(?:"+f+")$"))
	}
	// contracts selected for this property
	type target struct {
		key string
		sp  *FuncSpec
		fn  *ssa.Function
	}
	var targets []target
	var missing []string
	var keys []string
	for k := range L.specs.Funcs {
		keys = append(keys, k)
	}
	sort.Strings(keys)
	for _, k := range keys {
		sp := L.specs.Funcs[k]
		if sp.Assumed || sp.Trusted {
			continue
		}
		short := shortKeyOf(k)
		if fn0 := L.funcs[k]; fn0 != nil {
			short = L.funcKeyShort(fn0)
		}
		match := false
		for _, re := range res {
			if re.MatchString(short) {
				match = true
			}
		}
		for _, re := range exc {
			if re.MatchString(short) {
				match = false
			}
		}
		if !match {
			continue
		}
		fn := L.funcs[k]
		if fn == nil {
			missing = append(missing, short)
			continue
		}
		targets = append(targets, target{k, sp, fn})
	}
	// stale work directories of checks that were killed
	if old, _ := filepath.Glob(filepath.Join(os.TempDir(), "govc-C[0-9]*")); len(old) > 0 {
		for _, d := range old {
			if fi, err := os.Stat(d); err == nil && time.Since(fi.ModTime()) > 30*time.Minute {
				os.RemoveAll(d)
			}
		}
	}
	work, _ := os.MkdirTemp("", "govc-"+id)
	defer os.RemoveAll(work)
	opt := &solveOpts{timeout: 10, fast: 3, workers: 10, workDir: work, seed: seed}
	if *tier == "thorough" {
		opt.timeout = 60
		opt.allAgree = true
		opt.workers = 5
	}
	if len(cfg.Patient) > 0 {
		var pres []*regexp.Regexp
		for _, p := range cfg.Patient {
			pres = append(pres, regexp.MustCompile(p))
		}
		opt.patient = func(id string) bool {
			for _, re := range pres {
				if re.MatchString(id) {
					return true
				}
			}
			return false
		}
	}
	var all []*Obligation
	var results []*FuncResult
	fnOf := map[string]*ssa.Function{}
	var engineErrs []string
	for _, t := range targets {
		r := L.verifyFuncHoudini(t.fn, t.sp, opt)
		results = append(results, r)
		fnOf[r.Short] = t.fn
		for _, e := range r.Errs {
			engineErrs = append(engineErrs, r.Short+": "+e)
		}
		for _, o := range r.Obls {
			// obligations of a shared function that belong to another property's check
			other := false
			for _, re := range cfg.OtherProps {
				if regexp.MustCompile(re).MatchString(o.ID) {
					other = true
				}
			}
			if !other {
				all = append(all, o)
			}
		}
	}
	var dynSites []string
	if cfg.JSONSweep {
		var jo []*Obligation
		jo, dynSites = L.jsonableSweep()
		all = append(all, jo...)
		cfg.Assumes = append(cfg.Assumes, fmt.Sprintf("jsonable sweep (back end: go/types, structural): %d store sites decided by static type; %d sites pass an interface-typed value whose dynamic type is not decided here (assumed serialisable): %s", len(jo), len(dynSites), strings.Join(firstN(dynSites, 12), "; ")))
	}
	if n := cfg.PathAxioms[*tier]; n > 0 {
		t0 := time.Now()
		cnt, bad := validatePathAxioms(n)
		goal := "true"
		desc := fmt.Sprintf("BOUNDED validation of the assumed path/filepath contracts against the real library: all paths over {a,b,..,.,\"\"} with up to %d components, absolute and relative; %d instances", n, cnt)
		if len(bad) > 0 {
			goal = "false"
			desc += "; " + strings.Join(bad, "; ")
		}
		all = append(all, &Obligation{ID: "assumed/path-axioms/bounded", Kind: "bounded", Func: "path/filepath (assumed contracts)", Pos: "contracts/assumed/stdlib.spec", Desc: desc,
			Prefix: 1, Goal: goal, Script: []string{"(set-logic ALL)"}, Time: time.Since(t0).Seconds()})
		cfg.Bounded = append(cfg.Bounded, fmt.Sprintf("path/filepath axioms A1..A5: bounded validation against the real library, paths of up to %d components (%d instances, %.1fs); not a proof", n, cnt, time.Since(t0).Seconds()))
	}
	if len(cfg.ReceiverFrame) > 0 {
		var rfs []*regexp.Regexp
		for _, f := range cfg.ReceiverFrame {
			rfs = append(rfs, regexp.MustCompile("^(?:"+f+")$"))
		}
		var fl []*ssa.Function
		for fn := range L.allFuncs {
			fl = append(fl, fn)
		}
		sort.Slice(fl, func(i, j int) bool { return L.funcKey(fl[i]) < L.funcKey(fl[j]) })
		cnt := 0
		var accNames []string
		for a := range cfg.ReceiverFrameAccessors {
			accNames = append(accNames, a)
		}
		sort.Strings(accNames)
		for _, a := range accNames {
			ok := false
			for _, t := range targets {
				if L.funcKeyShort(t.fn) == a && t.sp != nil && t.sp.Checks["frame"] && t.sp.HasMod && !t.sp.ModAll && !t.sp.Trusted {
					ok = true
				}
			}
			goal, desc := "true", "accessor of keyed shared state is verified against a contract with a frame check in this run: "+cfg.ReceiverFrameAccessors[a]
			if !ok {
				goal, desc = "false", "accessor of keyed shared state has no verified contract with a frame check (modifies) in this run"
			}
			all = append(all, &Obligation{ID: a + "/receiver-frame/accessor#1", Kind: "confine", Func: a, Pos: "props/" + id + ".json", Desc: desc,
				Prefix: 1, Goal: goal, Script: []string{"(set-logic ALL)"}})
		}
		for _, fn := range fl {
			if p := pkgOf(fn); p == nil || !strings.HasPrefix(p.Pkg.Path(), modulePath) {
				continue
			}
			sk := L.funcKeyShort(fn)
			for _, re := range rfs {
				if re.MatchString(sk) {
					all = append(all, L.receiverFrame(fn, cfg.ReceiverFrameAccessors)...)
					all = append(all, L.globalFrame(fn, cfg.ReceiverFrameAccessors)...)
					for _, ea := range cfg.EventAddress {
						if m, _ := regexp.MatchString("^(?:"+ea+")$", sk); m {
							all = append(all, L.eventAddrRule(fn)...)
							break
						}
					}
					cnt++
					break
				}
			}
		}
		cfg.Assumes = append(cfg.Assumes, fmt.Sprintf("receiver-frame rule (back end: go/ssa, structural): %d handlers decided: no store, map update or delete whose target is reached from the receiver by field selection, indexing and loads, in the handler, the closures that capture the receiver and the module functions it hands the receiver to (three levels); accessors exempt because verified against their own contract: %s; not covered: writes made by functions that receive a pointer loaded from the receiver (not the receiver itself), and by interface or third-party methods", cnt, strings.Join(accNames, ", ")))
	}
	if len(cfg.UnbufferedChans) > 0 {
		var fl []*ssa.Function
		for fn := range L.allFuncs {
			fl = append(fl, fn)
		}
		sort.Slice(fl, func(i, j int) bool { return L.funcKey(fl[i]) < L.funcKey(fl[j]) })
		cnt := 0
		for _, fn := range fl {
			for _, re := range cfg.UnbufferedChans {
				if m, _ := regexp.MatchString("^(?:"+re+")$", L.funcKeyShort(fn)); m {
					all = append(all, L.unbufferedChans(fn)...)
					cnt++
					break
				}
			}
		}
		cfg.Assumes = append(cfg.Assumes, fmt.Sprintf("unbuffered-channel rule (back end: go/ssa, structural): %d handlers make only unbuffered channels", cnt))
	}
	if len(cfg.SingleWriter) > 0 {
		sw := L.singleWriterRule(cfg.SingleWriter)
		all = append(all, sw...)
		cfg.Assumes = append(cfg.Assumes, fmt.Sprintf("single-writer rule (back end: go/ssa, structural): %d struct fields receive a value only in the functions whose contracts release the replaced one", len(cfg.SingleWriter)))
	}
	if len(cfg.SingleSender) > 0 {
		ss := L.singleSenderRule(cfg.SingleSender)
		all = append(all, ss...)
		cfg.Assumes = append(cfg.Assumes, fmt.Sprintf("single-sender rule (back end: go/ssa, structural): %d channel fields are sent on only in the functions whose contracts count those sends", len(cfg.SingleSender)))
	}
	if cfg.GoSweep != nil {
		verified := map[string]bool{}
		for _, t := range targets {
			if t.sp != nil && t.sp.Checks["bounds"] && t.sp.Checks["nil"] && t.sp.Checks["panic"] {
				verified[t.key] = true
			}
			if t.sp != nil && t.sp.Decreases != nil {
				verified[t.key] = true
			}
		}
		gs, notes := L.goSweep(cfg.GoSweep, verified)
		all = append(all, gs...)
		cfg.Assumes = append(cfg.Assumes, fmt.Sprintf("goroutine and recursion sweep (back end: go/ssa, structural): %d go statements / recursive functions in %s decided; trusted or reviewed: %s", len(gs), strings.Join(cfg.GoSweep.Packages, ", "), strings.Join(notes, "; ")))
	}
	if cfg.Confine != nil {
		co, notes := L.confineSweep(cfg.Confine)
		all = append(all, co...)
		cfg.Assumes = append(cfg.Assumes, fmt.Sprintf("confinement sweep (back end: go/ssa, structural): %d path-taking calls of %s inside %s each carry a call-site containment condition; exempt: %s", len(co), strings.Join(cfg.Confine.Callees, ", "), strings.Join(cfg.Confine.Packages, ", "), strings.Join(notes, "; ")))
	}
	dischargeAll(pending(all), opt)
	if os.Getenv("VERIF_LIST") != "" {
		for _, o := range all {
			fmt.Printf("  %-8s %-9s %6.1fs %-22s %s  [%s]\n", o.Kind, o.Verdict, o.Time, o.Solver, o.ID, o.Pos)
		}
	}

	known := loadKnown()
	openByObl := map[string]*KnownFinding{}
	for i := range known.Findings {
		f := &known.Findings[i]
		if f.Property == id && f.Status == "open" {
			openByObl[f.Obligation] = f
		}
	}
	replayDir := filepath.Join(verifDir, "replays", id)
	if *noEvidence {
		replayDir = filepath.Join(verifDir, ".work", "replays", id)
	}
	if !*noEvidence {
		os.RemoveAll(replayDir) // replays are rewritten on every run
	}
	var violations []string
	var knownHit []string
	discharged, total, covers, coverOK := 0, 0, 0, 0
	byBackend := map[string]int{}
	var sumT, maxT float64
	var samples []map[string]interface{}
	var failed []*Obligation
	for _, o := range all {
		sumT += o.Time
		if o.Time > maxT {
			maxT = o.Time
		}
		if o.Cover {
			covers++
			if o.Verdict != "unsat" {
				coverOK++
			}
			continue
		}
		if o.Kind == "bounded" {
			// a bounded stand-in: reported, never counted as proved
			if o.Verdict != "unsat" {
				failed = append(failed, o)
			}
			continue
		}
		total++
		if o.Verdict == "unsat" {
			discharged++
			byBackend[o.Solver]++
			if len(samples) < 6 && (o.Kind == "post" || o.Kind == "bounds" || o.Kind == "frame" || o.Kind == "inv-preserve") && len(samples) < 6 {
				g := o.Goal
				if len(g) > 300 {
					g = g[:300] + "…"
				}
				samples = append(samples, map[string]interface{}{"obligation": o.ID, "kind": o.Kind, "at": o.Pos, "clause": o.Desc, "smt_goal_head": g, "verdict": o.Verdict, "solver": o.Solver, "time_s": round3(o.Time)})
			}
		} else {
			failed = append(failed, o)
		}
		if *verbose {
			fmt.Printf("  %-8s %-7s %5.2fs %s\n", o.Verdict, o.Solver, o.Time, o.ID)
		}
	}
	// missing targets and spec errors are failed obligations of kind "contract"
	for _, m := range missing {
		oid := m + "/contract/target-missing"
		total++
		if f := openByObl[oid]; f != nil {
			knownHit = append(knownHit, fmt.Sprintf("KNOWN-FINDING: property=%s %s: %s", id, oid, f.What))
			continue
		}
		p := writeReplay(replayDir, &ReplayFile{Property: id, Obligation: oid, Kind: "contract", Function: m, Outcome: "no-model",
			Desc: "the function this contract is attached to no longer exists", Verdict: "n/a"})
		violations = append(violations, fmt.Sprintf("VIOLATION property=%s replay=%s no-failing-input-found", id, p))
	}
	for _, e := range engineErrs {
		total++
		oid := "contract/spec-error"
		p := writeReplay(replayDir, &ReplayFile{Property: id, Obligation: oid, Kind: "contract", Outcome: "no-model", Desc: e, Verdict: "n/a"})
		violations = append(violations, fmt.Sprintf("VIOLATION property=%s replay=%s no-failing-input-found", id, p))
	}
	vac, deadRets := vacuous(all)
	failed = append(failed, vac...)
	isVac := map[*Obligation]bool{}
	for _, o := range vac {
		isVac[o] = true
	}
	var deadNotes []string
	for _, o := range deadRets {
		if why, ok := cfg.ExpectedDead[o.ID]; ok {
			deadNotes = append(deadNotes, o.ID+" ("+why+")")
			continue
		}
		if !isVac[o] {
			failed = append(failed, o) // an unexplained unreachable return: the contracts may be inconsistent
		}
	}
	if len(deadNotes) > 0 {
		cfg.Assumes = append(cfg.Assumes, "returns unreachable under the contracts' assumptions (reviewed): "+strings.Join(deadNotes, "; "))
	}
	sort.Slice(failed, func(i, j int) bool { return failed[i].ID < failed[j].ID })
	for _, o := range failed {
		if f := openByObl[o.ID]; f != nil {
			// TODO witness split
			knownHit = append(knownHit, fmt.Sprintf("KNOWN-FINDING: property=%s %s: %s", id, o.ID, f.What))
			continue
		}
		rf := &ReplayFile{Property: id, Obligation: o.ID, Kind: o.Kind, Function: o.Func, Position: o.Pos, Desc: o.Desc,
			Verdict: o.Verdict, Solver: o.Solver}
		if o.Cover {
			rf.Desc = "vacuity guard: this point is unreachable under the contract's preconditions (contradictory requires or dead return)"
			rf.Outcome = "no-model"
			rf.SolverOut = firstLines(o.Raw, 5)
			p := writeReplay(replayDir, rf)
			violations = append(violations, fmt.Sprintf("VIOLATION property=%s replay=%s no-failing-input-found", id, p))
			continue
		}
		suffix := " no-failing-input-found"
		structural := o.Prefix == 1 && o.Goal == "false" // decided on go/ssa: there is no input to replay
		if structural {
			rf.Outcome = "no-model"
		} else if o.Verdict == "sat" || o.Verdict == "sat-relaxed" {
			shrinkAndModel(o, opt)
			rf.Model = compactModel(o.Model)
			fn := fnOf[o.Func]
			if fn != nil {
				src, ok, notes := L.buildReplay(fn, o)
				rf.Note = strings.Join(notes, "; ")
				if src != "" && ok {
					rf.TestSource = src
					out, cmdline := L.runReplay(fn, src)
					rf.ReplayOut = out
					rf.ReplayCmd = cmdline
					switch {
					case safetyKinds[o.Kind] && strings.Contains(out, "GOVC-REPLAY-PANIC:"):
						rf.Outcome = "reproduced"
						suffix = ""
					case strings.Contains(out, "GOVC-REPLAY-RETURNED") || strings.Contains(out, "GOVC-REPLAY-PANIC:"):
						if safetyKinds[o.Kind] {
							rf.Outcome = "not-reproduced"
						} else {
							rf.Outcome = "executed: compare the printed result/state with the violated clause"
							suffix = ""
						}
					default:
						rf.Outcome = "not-reproduced"
					}
				} else {
					rf.Outcome = "not-replayable"
				}
			}
		} else {
			rf.Outcome = "no-model"
		}
		rf.SolverOut = firstLines(o.Raw, 12)
		p := writeReplay(replayDir, rf)
		violations = append(violations, fmt.Sprintf("VIOLATION property=%s replay=%s%s", id, p, suffix))
	}
	if total < cfg.MinObls {
		p := writeReplay(replayDir, &ReplayFile{Property: id, Obligation: "vacuity/obligation-count", Kind: "vacuity", Outcome: "no-model",
			Desc: fmt.Sprintf("only %d obligations generated, at least %d expected", total, cfg.MinObls)})
		violations = append(violations, fmt.Sprintf("VIOLATION property=%s replay=%s no-failing-input-found", id, p))
	}
	for _, k := range knownHit {
		fmt.Println(k)
	}
	for _, v := range violations {
		fmt.Println(v)
	}
	wall := time.Since(t0).Seconds()
	fmt.Printf("%s %s: %d functions under contract, %d obligations, %d discharged, %d covers (%d reachable), %d known findings, %d violations, %.1fs\n",
		id, *tier, len(results), total, discharged, covers, coverOK, len(knownHit), len(violations), wall)
	if !*noEvidence {
		writeEvidence(id, *tier, seed, &cfg, L, results, total, discharged+len(knownHit), covers, coverOK, byBackend, sumT, maxT, samples, knownHit, len(violations), wall)
	}
	if len(violations) > 0 {
		os.RemoveAll(work) // os.Exit skips the deferred clean-up
		os.Exit(1)
	}
}

func shortKeyOf(k string) string {
	// "<path>/pkg.rest" -> "pkg.rest"; keep receiver parentheses intact
	i := strings.Index(k, modulePath+"/")
	if i != 0 {
		return k
	}
	rest := k[len(modulePath)+1:]
	// package path ends at the first '.' after the last '/' that precedes a '.' or '('
	j := strings.Index(rest, ".")
	if j < 0 {
		return rest
	}
	pk := rest[:j]
	if s := strings.LastIndex(pk, "/"); s >= 0 {
		pk = pk[s+1:]
	}
	return pk + rest[j:]
}

func firstLines(s string, n int) string {
	ls := strings.Split(s, "\n")
	if len(ls) > n {
		ls = append(ls[:n], "...")
	}
	out := strings.Join(ls, "\n")
	if len(out) > 3000 {
		out = out[:3000] + "..."
	}
	return out
}

func compactModel(m map[string]string) map[string]string {
	out := map[string]string{}
	for k, v := range m {
		if i := strings.Index(k, "["); i >= 0 {
			// keep only the first 16 elements of each array
			j := strings.Index(k[i:], "]")
			if n, err := strconv.Atoi(k[i+1 : i+j]); err == nil && n >= 16 {
				continue
			}
		}
		out[k] = v
	}
	return out
}

var reFile = regexp.MustCompile(`[^A-Za-z0-9_.\-]+`)

func writeReplay(dir string, rf *ReplayFile) string {
	os.MkdirAll(dir, 0o755)
	name := reFile.ReplaceAllString(rf.Obligation, "_")
	if len(name) > 150 {
		name = name[:150]
	}
	p := filepath.Join(dir, name+".json")
	b, _ := json.MarshalIndent(rf, "", " ")
	os.WriteFile(p, b, 0o644)
	return p
}

func round3(f float64) float64 { return float64(int(f*1000+0.5)) / 1000 }

func writeEvidence(id, tier string, seed int, cfg *PropConfig, L *Loader, results []*FuncResult, total, discharged, covers, coverOK int,
	byBackend map[string]int, sumT, maxT float64, samples []map[string]interface{}, known []string, nviol int, wall float64) {
	var fns []map[string]interface{}
	assumedUsed := map[string]bool{}
	flagsAll := map[string]bool{}
	for _, r := range results {
		n := 0
		for _, o := range r.Obls {
			if !o.Cover {
				n++
			}
		}
		fns = append(fns, map[string]interface{}{"function": r.Short, "ints": "bv", "checks": r.Checks, "obligations": n,
			"abstractions": r.Flags, "inlined_callees": r.Inlined, "assumed_contracts": r.Assumed})
		for _, a := range r.Assumed {
			assumedUsed[a] = true
		}
		for _, f := range r.Flags {
			if !strings.HasPrefix(f, "contract-call:") {
				flagsAll[r.Short+": "+f] = true
			}
		}
	}
	var au []string
	for a := range assumedUsed {
		au = append(au, a)
	}
	sort.Strings(au)
	var fl []string
	for f := range flagsAll {
		fl = append(fl, f)
	}
	sort.Strings(fl)
	assumptions := append([]string{}, globalAssumptions...)
	assumptions = append(assumptions, cfg.Assumes...)
	for _, a := range au {
		assumptions = append(assumptions, "assumed contract (never verified): "+a)
	}
	for _, f := range fl {
		assumptions = append(assumptions, "abstraction hit: "+f)
	}
	ev := map[string]interface{}{
		"property_id": id,
		"tier":        tier,
		"seed":        seed,
		"level":       "proof",
		"wall_s":      round3(wall),
		"violations":  nviol,
		"coverage": map[string]interface{}{
			"obligations":              total,
			"discharged":               discharged,
			"checker_cmd":              fmt.Sprintf("/verif/check %s --tier %s   (govc: go/ssa -> weakest-precondition style VCs -> SMT-LIB2; z3-new 5.1.0 first, then z3 4.8.12 / cvc5 1.0.3 raced)", id, tier),
			"trusted_base":             []string{"go/packages+go/types+go/ssa (x/tools v0.29.0)", "govc VC generator (/verif/govc)", "z3 5.1.0, z3 4.8.12, cvc5 1.0.3", "assumed contracts in /verif/contracts/assumed", "Go compiler/runtime implement the language spec"},
			"functions_under_contract": fns,
			"by_backend":               byBackend,
			"solver_time_s":            map[string]float64{"sum": round3(sumT), "max": round3(maxT)},
			"covers":                   map[string]int{"generated": covers, "reachable_or_inconclusive": coverOK},
			"known_findings":           known,
			"bounded":                  cfg.Bounded,
			"not_decided":              cfg.NotDecided,
			"samples":                  samples,
			"explanation":              "every obligation is regenerated from /repo's working tree on each run; 'discharged' counts obligations proved unsat (negated goal) plus obligations failing exactly as a listed known finding predicts",
		},
		"assumptions": assumptions,
	}
	os.MkdirAll(filepath.Join(verifDir, "evidence"), 0o755)
	b, _ := json.MarshalIndent(ev, "", " ")
	os.WriteFile(filepath.Join(verifDir, "evidence", id+".json"), b, 0o644)
}

var globalAssumptions = []string{
	"T1 go/ssa built from the working tree is faithful to the Go spec; the compiler/runtime implement it",
	"T2 govc's translation and built-in models (len/cap/append/copy/slicing/maps/interfaces) are correct; mitigated by must-fail corpus and replay",
	"T3 SMT solvers are sound",
	"A1 sequential semantics per function: no interference from other goroutines; go statements, channels, select, mutexes are abstracted (no-ops / havoc)",
	"A2 pointers loaded from the heap and pointer parameters are non-nil unless declared nullable; pointer results of uncontracted external calls are non-nil when not paired with an error",
	"A3 memory and stack are unbounded; make/append succeed for sizes in 0..2^40",
	"A4 termination only where a decreases clause exists; a call is assumed to return unless it panics",
	"A5 integers are exact 64/32/16/8-bit vectors (no mathematical-integer abstraction)",
	"A6 linux/amd64",
	"panics: a disabled safety kind is assumed not to fire (path ends at the panic); enabled kinds are proved",
}

func firstN(s []string, n int) []string {
	if len(s) > n {
		return append(append([]string{}, s[:n]...), fmt.Sprintf("... and %d more", len(s)-n))
	}
	return s
}
