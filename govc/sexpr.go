package main

import (
	"fmt"
	"strconv"
	"strings"
	"unicode"
)

// ---- contract expression language: Go expressions + old, ==>, forall/exists ----

type SExpr struct {
	Op   string   // "int","str","bool","nil","id","un","bin","sel","idx","slice","call","quant"
	Tok  string   // operator / identifier / literal text
	Args []*SExpr // operands
	Vars []QVar   // quantifier variables
}

type QVar struct{ Name, Type string }

func (e *SExpr) String() string {
	switch e.Op {
	case "int", "id", "bool", "nil":
		return e.Tok
	case "str":
		return strconv.Quote(e.Tok)
	case "un":
		return e.Tok + e.Args[0].String()
	case "bin":
		return "(" + e.Args[0].String() + " " + e.Tok + " " + e.Args[1].String() + ")"
	case "sel":
		return e.Args[0].String() + "." + e.Tok
	case "idx":
		return e.Args[0].String() + "[" + e.Args[1].String() + "]"
	case "slice":
		s := e.Args[0].String() + "["
		if e.Args[1] != nil {
			s += e.Args[1].String()
		}
		s += ":"
		if e.Args[2] != nil {
			s += e.Args[2].String()
		}
		return s + "]"
	case "call":
		var as []string
		for _, a := range e.Args[1:] {
			as = append(as, a.String())
		}
		return e.Args[0].String() + "(" + strings.Join(as, ", ") + ")"
	case "quant":
		var vs []string
		for _, v := range e.Vars {
			vs = append(vs, v.Name+" "+v.Type)
		}
		return "(" + e.Tok + " " + strings.Join(vs, ", ") + " :: " + e.Args[0].String() + ")"
	}
	return "?"
}

type tok struct {
	k string // "int","str","id","op","eof"
	s string
}

func lexSpec(src string) ([]tok, error) {
	var out []tok
	i := 0
	for i < len(src) {
		c := src[i]
		switch {
		case c == ' ' || c == '\t':
			i++
		case unicode.IsLetter(rune(c)) || c == '_':
			j := i
			for j < len(src) && (unicode.IsLetter(rune(src[j])) || unicode.IsDigit(rune(src[j])) || src[j] == '_' || src[j] == '$') {
				j++
			}
			out = append(out, tok{"id", src[i:j]})
			i = j
		case c >= '0' && c <= '9':
			j := i
			for j < len(src) && (unicode.IsDigit(rune(src[j])) || unicode.IsLetter(rune(src[j])) || src[j] == '_') {
				j++
			}
			out = append(out, tok{"int", src[i:j]})
			i = j
		case c == '"':
			j := i + 1
			for j < len(src) && src[j] != '"' {
				if src[j] == '\\' {
					j++
				}
				j++
			}
			if j >= len(src) {
				return nil, fmt.Errorf("unterminated string")
			}
			s, err := strconv.Unquote(src[i : j+1])
			if err != nil {
				return nil, err
			}
			out = append(out, tok{"str", s})
			i = j + 1
		case c == '\'':
			j := i + 1
			for j < len(src) && src[j] != '\'' {
				if src[j] == '\\' {
					j++
				}
				j++
			}
			r, _, _, err := strconv.UnquoteChar(src[i+1:j], '\'')
			if err != nil {
				return nil, err
			}
			out = append(out, tok{"int", strconv.Itoa(int(r))})
			i = j + 1
		default:
			ops := []string{"<==>", "==>", "&&", "||", "==", "!=", "<=", ">=", "<<", ">>", "&^", "::", "..",
				"+", "-", "*", "/", "%", "&", "|", "^", "<", ">", "!", "(", ")", "[", "]", ".", ",", ":"}
			found := false
			for _, op := range ops {
				if strings.HasPrefix(src[i:], op) {
					out = append(out, tok{"op", op})
					i += len(op)
					found = true
					break
				}
			}
			if !found {
				return nil, fmt.Errorf("unexpected character %q", c)
			}
		}
	}
	out = append(out, tok{"eof", ""})
	return out, nil
}

type specParser struct {
	toks []tok
	p    int
}

func parseSpecExpr(src string) (*SExpr, error) {
	toks, err := lexSpec(src)
	if err != nil {
		return nil, fmt.Errorf("%v in %q", err, src)
	}
	sp := &specParser{toks: toks}
	e, err := sp.expr()
	if err != nil {
		return nil, fmt.Errorf("%v in %q", err, src)
	}
	if sp.peek().k != "eof" {
		return nil, fmt.Errorf("trailing tokens at %q in %q", sp.peek().s, src)
	}
	return e, nil
}

func (p *specParser) peek() tok { return p.toks[p.p] }
func (p *specParser) next() tok { t := p.toks[p.p]; p.p++; return t }
func (p *specParser) isOp(s string) bool {
	t := p.peek()
	return t.k == "op" && t.s == s
}
func (p *specParser) accept(s string) bool {
	if p.isOp(s) {
		p.p++
		return true
	}
	return false
}
func (p *specParser) expect(s string) error {
	if !p.accept(s) {
		return fmt.Errorf("expected %q, got %q", s, p.peek().s)
	}
	return nil
}

func (p *specParser) expr() (*SExpr, error) {
	t := p.peek()
	if t.k == "id" && (t.s == "forall" || t.s == "exists") {
		p.next()
		q := &SExpr{Op: "quant", Tok: t.s}
		for {
			n := p.next()
			if n.k != "id" {
				return nil, fmt.Errorf("quantifier variable expected")
			}
			ty := ""
			for !(p.isOp(",") || p.isOp("::") || p.peek().k == "eof") {
				ty += p.next().s
			}
			if ty == "" {
				ty = "int"
			}
			q.Vars = append(q.Vars, QVar{n.s, ty})
			if !p.accept(",") {
				break
			}
		}
		if err := p.expect("::"); err != nil {
			return nil, err
		}
		b, err := p.expr()
		if err != nil {
			return nil, err
		}
		q.Args = []*SExpr{b}
		return q, nil
	}
	return p.imp()
}

func (p *specParser) imp() (*SExpr, error) {
	l, err := p.binLevel(0)
	if err != nil {
		return nil, err
	}
	if p.isOp("==>") || p.isOp("<==>") {
		op := p.next().s
		var r *SExpr
		if op == "==>" {
			r, err = p.expr()
		} else {
			r, err = p.binLevel(0)
		}
		if err != nil {
			return nil, err
		}
		return &SExpr{Op: "bin", Tok: op, Args: []*SExpr{l, r}}, nil
	}
	return l, nil
}

var binLevels = [][]string{
	{"||"},
	{"&&"},
	{"==", "!=", "<", "<=", ">", ">="},
	{"+", "-", "|", "^"},
	{"*", "/", "%", "<<", ">>", "&", "&^"},
}

func (p *specParser) binLevel(lv int) (*SExpr, error) {
	if lv == len(binLevels) {
		return p.unary()
	}
	l, err := p.binLevel(lv + 1)
	if err != nil {
		return nil, err
	}
	for {
		t := p.peek()
		matched := false
		if t.k == "op" {
			for _, op := range binLevels[lv] {
				if t.s == op {
					matched = true
				}
			}
		}
		if !matched {
			return l, nil
		}
		p.next()
		r, err := p.binLevel(lv + 1)
		if err != nil {
			return nil, err
		}
		l = &SExpr{Op: "bin", Tok: t.s, Args: []*SExpr{l, r}}
	}
}

func (p *specParser) unary() (*SExpr, error) {
	t := p.peek()
	if t.k == "op" && (t.s == "!" || t.s == "-" || t.s == "^") {
		p.next()
		a, err := p.unary()
		if err != nil {
			return nil, err
		}
		return &SExpr{Op: "un", Tok: t.s, Args: []*SExpr{a}}, nil
	}
	return p.postfix()
}

func (p *specParser) postfix() (*SExpr, error) {
	e, err := p.primary()
	if err != nil {
		return nil, err
	}
	for {
		switch {
		case p.accept("."):
			n := p.next()
			if n.k != "id" {
				return nil, fmt.Errorf("field name expected")
			}
			e = &SExpr{Op: "sel", Tok: n.s, Args: []*SExpr{e}}
		case p.accept("["):
			var lo, hi *SExpr
			if !p.isOp(":") {
				lo, err = p.expr()
				if err != nil {
					return nil, err
				}
			}
			if p.accept(":") {
				if !p.isOp("]") {
					hi, err = p.expr()
					if err != nil {
						return nil, err
					}
				}
				if err := p.expect("]"); err != nil {
					return nil, err
				}
				e = &SExpr{Op: "slice", Args: []*SExpr{e, lo, hi}}
			} else {
				if err := p.expect("]"); err != nil {
					return nil, err
				}
				e = &SExpr{Op: "idx", Args: []*SExpr{e, lo}}
			}
		case p.accept("("):
			c := &SExpr{Op: "call", Args: []*SExpr{e}}
			for !p.isOp(")") {
				a, err := p.expr()
				if err != nil {
					return nil, err
				}
				c.Args = append(c.Args, a)
				if !p.accept(",") {
					break
				}
			}
			if err := p.expect(")"); err != nil {
				return nil, err
			}
			e = c
		default:
			return e, nil
		}
	}
}

func (p *specParser) primary() (*SExpr, error) {
	t := p.next()
	switch t.k {
	case "int":
		return &SExpr{Op: "int", Tok: t.s}, nil
	case "str":
		return &SExpr{Op: "str", Tok: t.s}, nil
	case "id":
		switch t.s {
		case "true", "false":
			return &SExpr{Op: "bool", Tok: t.s}, nil
		case "nil":
			return &SExpr{Op: "nil", Tok: "nil"}, nil
		}
		return &SExpr{Op: "id", Tok: t.s}, nil
	case "op":
		if t.s == "(" {
			e, err := p.expr()
			if err != nil {
				return nil, err
			}
			if err := p.expect(")"); err != nil {
				return nil, err
			}
			return e, nil
		}
		if t.s == "*" { // pointer type in a cast position, e.g. (*T)(x) -- unsupported; deref
			a, err := p.unary()
			if err != nil {
				return nil, err
			}
			return &SExpr{Op: "un", Tok: "*", Args: []*SExpr{a}}, nil
		}
	}
	return nil, fmt.Errorf("unexpected token %q", t.s)
}
