package server

// Hand replays for property C15.
//  - services.(*copyService).Handle and services.(*dnsProxy).Handle chose their behaviour by the concrete
//    type of the connection (*listener.DummyUDPConn, *net.TCPConn); the server hands every connection to
//    Handle wrapped in its timeout connection, so neither proxy ever dialled its backend: nothing relayed.
//  - services.(*httpProxy).Handle made a new buffered reader per request on both sides: of two requests
//    pipelined in one segment only the first reached the backend.

import (
	"bufio"
	"io"
	"net"
	"net/http"
	"strings"
	"testing"
	"time"

	"github.com/honeytrap/honeytrap/pushers"
	"github.com/honeytrap/honeytrap/pushers/eventbus"
	"github.com/honeytrap/honeytrap/services"
)

// handBackend accepts connections and hands them to fn.
func handBackend(t *testing.T, fn func(net.Conn)) (addr string, stop func()) {
	t.Helper()
	l, err := net.Listen("tcp", "127.0.0.1:0")
	if err != nil {
		t.Fatal(err)
	}
	go func() {
		for {
			c, err := l.Accept()
			if err != nil {
				return
			}
			go fn(c)
		}
	}()
	return l.Addr().String(), func() { l.Close() }
}

type handDirector struct{ host string }

func (d handDirector) Dial(conn net.Conn) (net.Conn, error) { return net.Dial("tcp", d.host) }

func handServeTCP(t *testing.T, name string, svc services.Servicer, client func(net.Conn)) {
	t.Helper()
	l, err := net.Listen("tcp", "127.0.0.1:0")
	if err != nil {
		t.Fatal(err)
	}
	defer l.Close()
	hc := &Honeytrap{
		bus:   eventbus.New(),
		ports: map[net.Addr][]*ServiceMap{l.Addr(): {{Service: svc, Name: name, Type: name}}},
	}
	done := make(chan struct{})
	go func() {
		defer close(done)
		c, err := l.Accept()
		if err != nil {
			return
		}
		hc.handle(c)
	}()
	clt, err := net.Dial("tcp", l.Addr().String())
	if err != nil {
		t.Fatal(err)
	}
	defer clt.Close()
	clt.SetDeadline(time.Now().Add(3 * time.Second))
	client(clt)
	clt.Close()
	select {
	case <-done:
	case <-time.After(5 * time.Second):
		t.Fatalf("handler did not return")
	}
}

func TestHandCopyProxyRelays(t *testing.T) {
	backend, stop := handBackend(t, func(c net.Conn) {
		defer c.Close()
		b := make([]byte, 5)
		if _, err := io.ReadFull(c, b); err == nil {
			c.Write([]byte(strings.ToUpper(string(b))))
		}
	})
	defer stop()

	c, _ := pushers.Dummy()
	svc := services.Copy(services.WithChannel(c), services.WithDirector(handDirector{backend}))

	handServeTCP(t, "copy", svc, func(clt net.Conn) {
		clt.Write([]byte("hello"))
		b := make([]byte, 5)
		if _, err := io.ReadFull(clt, b); err != nil || string(b) != "HELLO" {
			t.Errorf("the copy proxy relayed %q (%v), want the backend's reply \"HELLO\"", b, err)
		}
	})
}

func TestHandHTTPProxyPipelined(t *testing.T) {
	backend, stop := handBackend(t, func(c net.Conn) {
		defer c.Close()
		r := bufio.NewReader(c)
		for {
			req, err := http.ReadRequest(r)
			if err != nil {
				return
			}
			body := "seen " + req.URL.Path
			resp := http.Response{StatusCode: 200, Proto: "HTTP/1.1", ProtoMajor: 1, ProtoMinor: 1,
				ContentLength: int64(len(body)), Body: io.NopCloser(strings.NewReader(body)), Header: http.Header{}}
			resp.Write(c)
		}
	})
	defer stop()

	c, _ := pushers.Dummy()
	svc := services.HTTPProxy(services.WithChannel(c), services.WithDirector(handDirector{backend}))

	handServeTCP(t, "http-proxy", svc, func(clt net.Conn) {
		clt.Write([]byte("GET /first HTTP/1.1\r\nHost: a\r\n\r\nGET /second HTTP/1.1\r\nHost: a\r\n\r\n"))
		r := bufio.NewReader(clt)
		for i, want := range []string{"seen /first", "seen /second"} {
			resp, err := http.ReadResponse(r, nil)
			if err != nil {
				t.Errorf("reply %d of 2 pipelined requests: %v", i+1, err)
				return
			}
			b, _ := io.ReadAll(resp.Body)
			if string(b) != want {
				t.Errorf("reply %d is %q, want %q", i+1, b, want)
			}
		}
	})
}
